package main

// C20 — the optional mock server builds and answers with contract-conformant examples.

import (
	"fmt"
	"go/ast"
	"go/constant"
	"go/parser"
	"go/token"
	"go/types"
	"regexp"
	"strings"
)

func init() { props["C20"] = checkC20 }

var ifaceRe = regexp.MustCompile(`(?m)^type (\w+)Server interface \{`)

func checkC20(c *Ctx) {
	r := c.R
	r.Explain = "Decides structural clauses of C20 on the reconstructed mock unit. R20a/R20b: for every response-field shape (kind x singular/optional/oneof-member/repeated/map) the mock file emitted for a one-method service whose response has one field of that shape is type-checked, together with the service file and the server runtime, against a stand-in for protoc-gen-go's struct with the shape's Go type; a compile error means the mock does not build for that schema (selector result types, pointer/slice fields, missing struct fields of oneof members). R20g: the same package asserts that Mock<S>Server implements <S>Server. R20c: the mock field walker's recursion is well-founded (visited set; shared with C16). R20d: example values are printed quoted. R20e: the key format of the emitted example table agrees with the key format the selectors look up. R20f: package-level names of the per-file mock unit that do not depend on the file collide when two proto files of one Go package have services. Not decided: that mock values satisfy validation rules or response schemas (value level)."
	r.Trusted = []string{"protoc-gen-go's field type mapping"}
	r.Rule("R20a", "mock assignments type-check for every response-field shape (with the service file and runtime; Mock<S>Server implements <S>Server)", 4)
	r.Rule("R20c", "mock field walker recursion is well-founded", 2)
	r.Rule("R20h", "the mock walker's visited set is path-scoped (marked on entry, unmarked on return)", 1)
	r.Rule("R20i", "the mock walker's visited set is keyed by the message's full name (no two messages share a key)", 1)
	visitedKeysInjective(c, "R20i", func(fn *types.Func) bool { return strings.HasSuffix(fn.Pkg().Path(), "internal/httpgen") })
	r.Rule("R20j", "the mock unit names message types reached through fields by GoIdent (qualified, imported), never by bare name (shared with C13/R13k)", 1)
	if ri := c.Root(pkgHTTP, "_http_mock.pb.go"); ri != nil {
		bareForeignTypeNames(c, "R20j", []RootInfo{*ri})
	}
	c20ExampleCollector(c)
	c20NoShadowedLocals(c)
	c20MockOnlyWithServices(c)
	c20MapKeyLiterals(c)
	r.Rule("R20d", "example values and table keys are printed quoted", 1)
	r.Rule("R20e", "example table keys and selector lookup keys have the same format", 1)
	r.Rule("R20f", "file-independent package-level names in per-file units", 1)

	mock := c.Root(pkgHTTP, "_http_mock.pb.go")
	httpU := c.Root(pkgHTTP, "_http.pb.go")
	if mock == nil || httpU == nil {
		r.Unres("R20a", "mock / service units", "", "not found")
		return
	}
	// ---- R20a shape worlds
	type agg struct {
		kinds map[string]bool
		msg   string
		text  string
		pos   string
	}
	bad := map[string]*agg{}
	okShapes := map[string][]string{}
	nWorlds := 0
	for _, s := range AllShapes() {
		s := s
		if s.Card == "map" {
			continue // key and value field of the entry would get the same shape: not a faithful stand-in
		}
		fix := func(dk, cr string) (int, bool) {
			if strings.HasPrefix(dk, "n:") {
				switch {
				case strings.HasSuffix(dk, ".Messages"), strings.HasSuffix(dk, ".Enums"), strings.Contains(dk, "GetServiceHeaders("), strings.Contains(dk, "GetMethodHeaders("),
					strings.Contains(dk, "GetFieldExamples("), strings.Contains(dk, "PathParams"), strings.Contains(dk, "getPathParams("), strings.Contains(dk, "GetQueryParams("):
					return 0, true
				case strings.Contains(dk, ".Message.Fields"):
					return 0, true // the stand-in checks the assignment of the field itself, not of its children
				}
				return 1, true
			}
			return s.AnswerAny(dk, cr)
		}
		c.W.InlineAllRuns = true
		mouts, probs, _ := c.W.EvalAll(mock.Fn, fix, true, 48)
		houts, _, _ := c.W.EvalAll(httpU.Fn, fix, true, 8)
		c.W.InlineAllRuns = false
		class := s.Card
		if s.Card == "singular" {
			class = s.Pres
		}
		if len(probs) > 0 {
			r.Undec("R20a", "mock world "+s.String(), "", strings.Join(probs, "; "))
			continue
		}
		var httpUnit *Unit
		for _, o := range houts {
			if o.Aborted == "" && len(o.Units) > 0 {
				httpUnit = o.Units[0]
				break
			}
		}
		for _, o := range mouts {
			if o.Aborted != "" || len(o.Units) == 0 {
				continue
			}
			nWorlds++
			u := o.Units[0]
			finds, err := c.typeCheckMockWorld(u, httpUnit, s)
			if err != nil {
				r.Undec("R20a", "mock world "+s.String(), "", err.Error())
				continue
			}
			for _, fd := range finds {
				em, pos := "?", ""
				if fd.Line >= 1 && fd.Line <= len(u.Lines) {
					if u.Lines[fd.Line-1].Fn != nil {
						em = u.Lines[fd.Line-1].Fn.Name()
					}
					pos = c.P.Pos(u.Lines[fd.Line-1].Pos)
				}
				k := fmt.Sprintf("mock response field %s: %s", class, classifyTypeError(fd.Msg))
				_ = em
				if bad[k] == nil {
					bad[k] = &agg{kinds: map[string]bool{}, msg: holeFree(fd.Msg), text: holeFree(fd.Text), pos: pos}
				}
				bad[k].kinds[s.Kind] = true
			}
			if len(finds) == 0 {
				okShapes[class] = append(okShapes[class], s.Kind)
			}
		}
	}
	r.Count("mock_worlds_type_checked", nWorlds)
	for _, class := range sortedKeys(okShapes) {
		r.OKd("R20a", fmt.Sprintf("mock response field %s {%s} builds", class, strings.Join(dedupeSorted(okShapes[class]), ",")), "", nil)
	}
	for _, k := range sortedKeys(bad) {
		a := bad[k]
		r.Bad("R20a", k+" {"+strings.Join(sortedKeys(a.kinds), ",")+"}", a.pos,
			fmt.Sprintf("with generate_mock=true the emitted mock does not compile for a response message with a field of this shape: %s  (emitted line: %s)", a.msg, a.text), nil)
	}

	// ---- R20c recursion (same rule as C16/R16a, restricted to the mock emitters)
	for _, comp := range c.sccs() {
		isMock := false
		for _, f := range comp {
			if strings.Contains(f.Name(), "Mock") {
				isMock = true
			}
		}
		if !isMock {
			continue
		}
		inSCC := map[*types.Func]bool{}
		for _, f := range comp {
			inSCC[f] = true
		}
		for _, f := range comp {
			for _, cs := range c.callSites(f) {
				if !inSCC[cs.Callee] {
					continue
				}
				guarded := c.entryGuarded(cs.Callee, inSCC) || c.entryGuarded(f, inSCC)
				// the same set must travel along the cycle
				info := c.P.DeclPkg[f].TypesInfo
				for _, a := range cs.Call.Args {
					if tv, ok := info.Types[a]; ok && tv.Type != nil {
						if _, isMap := tv.Type.Underlying().(*types.Map); isMap {
							if _, isLit := ast.Unparen(a).(*ast.CompositeLit); isLit {
								guarded = false
							}
						}
					}
				}
				r.Check(guarded, "R20c", fmt.Sprintf("%s -> %s is visited-guarded", f.Name(), cs.Callee.Name()), c.P.Pos(cs.Call.Pos()),
					"the mock generator follows message references without a visited set: a recursive response type makes protoc-gen-go-http recurse forever with generate_mock=true")
			}
		}
	}

	// ---- R20h the visited set is path-scoped: a message type met twice on different paths is filled both times
	for _, comp := range c.sccs() {
		for _, f := range comp {
			if !strings.Contains(f.Name(), "Mock") {
				continue
			}
			tested, ins, desc := c.visitedGuard(f)
			if !tested || len(ins) == 0 {
				continue
			}
			decl := c.P.Decls[f]
			unmark := false
			ast.Inspect(decl.Body, func(n ast.Node) bool {
				ds, ok := n.(*ast.DeferStmt)
				if !ok {
					return true
				}
				if id, ok := ds.Call.Fun.(*ast.Ident); ok && id.Name == "delete" && len(ds.Call.Args) == 2 {
					if types.ExprString(ds.Call.Args[0])+"["+types.ExprString(ds.Call.Args[1])+"]" == desc {
						unmark = true
					}
				}
				return true
			})
			r.Check(unmark, "R20h", f.Name()+": the visited mark "+desc+" is removed when the expansion returns", c.P.Pos(decl.Pos()),
				fmt.Sprintf("%s marks %s but never unmarks it (no `defer delete(…)`): the set then records every type seen anywhere in the response, not the types on the current path, so the second field of a message type already expanded elsewhere (Address home; Address work) is emitted as an empty &T{} and its examples are ignored", f.Name(), desc))
		}
	}

	// ---- R20d / R20e / R20f on the default exploration
	ex := c.Explore(mock.Fn, 1, 6000)
	unq := ""
	tableKeys, lookupKeys := map[string]bool{}, map[string]bool{}
	constDecls := map[string]bool{}
	for _, v := range ex.Variants {
		for _, u := range v.Units {
			for _, l := range u.Lines {
				t := lineText(l.Segs)
				fn := ""
				if l.Fn != nil {
					fn = l.Fn.Name()
				}
				if fn == "collectMessageFieldExamples" {
					for _, sg := range l.Segs {
						if sg.Hole != nil && !sg.Hole.Quoted {
							unq = holeFree(t)
						}
					}
					if strings.HasSuffix(strings.TrimSpace(t), ": {") {
						tableKeys[normKeyExpr(l.Segs, "", ": {")] = true
					}
				}
				if fn == "assignMockScalar" || fn == "generateMockFieldAssignments" {
					if strings.Contains(t, "Example(") {
						lookupKeys[normKeyExpr(l.Segs, "Example(", ", ")] = true
					}
				}
			}
			if _, f, err := ParseUnit(u); err == nil {
				for _, d := range f.Decls {
					switch x := d.(type) {
					case *ast.FuncDecl:
						if x.Recv == nil && !holeRe.MatchString(x.Name.Name) {
							constDecls["func "+x.Name.Name] = true
						}
					case *ast.GenDecl:
						for _, sp := range x.Specs {
							switch y := sp.(type) {
							case *ast.ValueSpec:
								for _, n := range y.Names {
									if !holeRe.MatchString(n.Name) && n.Name != "_" {
										constDecls["var "+n.Name] = true
									}
								}
							case *ast.TypeSpec:
								if !holeRe.MatchString(y.Name.Name) {
									constDecls["type "+y.Name.Name] = true
								}
							}
						}
					}
				}
			}
		}
	}
	// R20b selector parse width = width of the selector's result type
	r.Rule("R20b", "example selectors parse examples at the width of their result type", 2)
	if len(ex.Variants) > 0 {
		if _, f, err := ParseUnit(ex.Variants[0].Units[0]); err == nil {
			for _, d := range f.Decls {
				fd, ok := d.(*ast.FuncDecl)
				if !ok || fd.Body == nil || !strings.HasPrefix(fd.Name.Name, "select") || fd.Type.Results == nil {
					continue
				}
				ret := types.ExprString(fd.Type.Results.List[0].Type)
				want := map[string]string{"int64": "64", "int32": "32", "float64": "64", "float32": "32"}[ret]
				ast.Inspect(fd.Body, func(n ast.Node) bool {
					call, ok := n.(*ast.CallExpr)
					if !ok {
						return true
					}
					fn := types.ExprString(call.Fun)
					if (fn == "strconv.ParseInt" || fn == "strconv.ParseUint" || fn == "strconv.ParseFloat") && want != "" {
						got := types.ExprString(call.Args[len(call.Args)-1])
						r.Check(got == want, "R20b", fd.Name.Name+" parses examples with bit size "+want, c.P.Pos(c.P.Decls[mock.Fn].Pos()),
							fmt.Sprintf("%s returns %s but parses examples with %s(…, %s): examples outside the narrower range are silently replaced by the default", fd.Name.Name, ret, fn, got))
					}
					return true
				})
			}
		}
	}
	r.Check(unq == "", "R20d", "example table entries are printed with strconv.Quote", c.P.Pos(c.P.Decls[mock.Fn].Pos()), "an example value or key is printed between hand-written quotes: "+unq)
	same := strings.Join(sortedKeys(tableKeys), " | ") == strings.Join(sortedKeys(lookupKeys), " | ")
	r.CheckD(same && len(lookupKeys) > 0, "R20e", "fieldExamples keys and selector lookup keys are spelled by the same expression", c.P.Pos(c.P.Decls[mock.Fn].Pos()),
		fmt.Sprintf("the example table is keyed by %v but the selectors look up %v: for messages where the two spellings differ (nested messages) declared examples are never found and the mock answers with the built-in default", sortedKeys(tableKeys), sortedKeys(lookupKeys)),
		map[string]any{"table": sortedKeys(tableKeys), "lookup": sortedKeys(lookupKeys)})
	names := sortedKeys(constDecls)
	r.CheckD(len(names) == 0, "R20f", fmt.Sprintf("mock unit declares file-independent package-level names {%s}", strings.Join(names, " ")), c.P.Pos(c.P.Decls[mock.Fn].Pos()),
		"the mock file is emitted once per proto file with services, and these package-level declarations do not depend on the file: two such proto files in one Go package declare them twice and the package does not compile", nil)
}

// typeCheckMockWorld type-checks mock unit + service unit + runtime + stubs,
// and asserts that every Mock<S>Server implements <S>Server.
func (c *Ctx) typeCheckMockWorld(mock, httpUnit *Unit, s Shape) ([]typeFinding, error) {
	fhs := fieldGoNameHoles(mock)
	if httpUnit == nil {
		return c.typeCheckWorld(mock, fhs, s, true)
	}
	// append the service unit's declarations (without package clause/imports) to the mock text is fragile;
	// instead type-check the mock alone with runtime and add interface assertions via an extra unit built from the service file.
	combined := &Unit{Name: mock.Name, Pos: mock.Pos}
	combined.Lines = append(combined.Lines, mock.Lines...)
	finds, err := c.typeCheckWorldExtra(combined, httpUnit, fhs, s)
	return finds, err
}

// typeCheckWorldExtra is typeCheckWorld with the runtime plus one more emitted unit in the package.
func (c *Ctx) typeCheckWorldExtra(u, extra *Unit, fieldHoles map[string]bool, s Shape) ([]typeFinding, error) {
	// render the extra unit as an additional file by temporarily registering it
	c.extraWorldUnit = extra
	defer func() { c.extraWorldUnit = nil }()
	return c.typeCheckWorld(u, fieldHoles, s, true)
}

var _ = parser.ParseFile
var _ = token.NoPos

var descRootRe = regexp.MustCompile(`[\w@.()\[\]]+?\.Desc\.`)

// normKeyExpr renders the part of an emitted line between the markers with
// holes replaced by their provenance, descriptor roots abstracted to X.
func normKeyExpr(segs []Seg, after, before string) string {
	var b strings.Builder
	for _, sg := range segs {
		if sg.Hole != nil {
			b.WriteString("${" + descRootRe.ReplaceAllString(eraseIters(sg.Hole.Key), "X.Desc.") + "}")
		} else {
			b.WriteString(sg.Const)
		}
	}
	t := b.String()
	if after != "" {
		if i := strings.Index(t, after); i >= 0 {
			t = t[i+len(after):]
		}
	}
	if before != "" {
		if i := strings.Index(t, before); i >= 0 {
			t = t[:i]
		}
	}
	return strings.Trim(strings.TrimSpace(t), `"`)
}

// c20ExampleCollector: R20k — the function that fills the emitted fieldExamples table visits the nested messages of
// every message: nothing ahead of its loop over message.Messages may leave the function (the selectors look the
// examples of nested messages up under Outer.Inner.field whatever Outer's own fields are).
func c20ExampleCollector(c *Ctx) {
	r := c.R
	r.Rule("R20k", "the example-table collector visits nested messages unconditionally", 1)
	fn := c.P.Func(pkgHTTP, "Generator.collectMessageFieldExamples")
	if fn == nil {
		r.Unres("R20k", "collectMessageFieldExamples", "", "not found")
		return
	}
	decl := c.P.Decls[fn]
	info := c.P.DeclPkg[fn].TypesInfo
	var loop *ast.RangeStmt
	ast.Inspect(decl.Body, func(n ast.Node) bool {
		rs, ok := n.(*ast.RangeStmt)
		if !ok || !strings.HasSuffix(types.ExprString(rs.X), ".Messages") {
			return true
		}
		ast.Inspect(rs.Body, func(m ast.Node) bool {
			if call, ok := m.(*ast.CallExpr); ok && Callee(info, call) == fn {
				loop = rs
			}
			return true
		})
		return true
	})
	pos := c.P.Pos(decl.Pos())
	if loop == nil {
		r.Bad("R20k", "collectMessageFieldExamples recurses into message.Messages", pos, "the collector has no loop over the nested messages that calls itself: examples declared on nested messages never reach the table the selectors consult", nil)
		return
	}
	early := ""
	ast.Inspect(decl.Body, func(n ast.Node) bool {
		switch x := n.(type) {
		case *ast.FuncLit:
			return false
		case *ast.ReturnStmt:
			if x.Pos() < loop.Pos() {
				early = c.P.Pos(x.Pos())
			}
		}
		return true
	})
	topLevel := false
	for _, st := range decl.Body.List {
		if st == ast.Stmt(loop) {
			topLevel = true
		}
	}
	r.Check(early == "" && topLevel, "R20k", "collectMessageFieldExamples reaches its loop over the nested messages on every path", pos,
		fmt.Sprintf("collectMessageFieldExamples can return (at %s) before it has visited message.Messages (loop at top level: %v): the examples of messages nested in such a message are missing from the emitted table, and the mock answers with the built-in placeholder values instead of the declared examples", early, topLevel))
}

// c20NoShadowedLocals: R20l — the mock emitter is recursive (a message inside a map inside a message …) and refers
// to what it is filling by NAME (resp.F["k"].G …). A fixed-name local declared by the emitted code (`entry := …`)
// is re-declared by the nested expansion of the same emitter; a statement of the outer expansion that is printed
// after the inner one then refers to the inner variable. In every variant of the mock unit no `:=` inside a
// nested block re-declares a name of an enclosing block of the same function (err excepted).
func c20NoShadowedLocals(c *Ctx) {
	r := c.R
	r.Rule("R20l", "locals declared by the emitted mock code are never re-declared in a nested block (the recursive emitter addresses values by name)", 1)
	ri := c.Root(pkgHTTP, "_http_mock.pb.go")
	if ri == nil {
		r.Unres("R20l", "_http_mock.pb.go", "", "unit root not found")
		return
	}
	ex := c.ExploreDeep(ri.Fn, 1, 6000)
	nFuncs := 0
	bad := map[string]string{}
	for _, v := range ex.Variants {
		for _, u := range v.Units {
			fset, f, err := ParseUnit(u)
			if err != nil {
				continue
			}
			for _, d := range f.Decls {
				fd, ok := d.(*ast.FuncDecl)
				if !ok || fd.Body == nil {
					continue
				}
				nFuncs++
				var walk func(b *ast.BlockStmt, outer map[string]bool)
				walk = func(b *ast.BlockStmt, outer map[string]bool) {
					declared := map[string]bool{}
					for k := range outer {
						declared[k] = true
					}
					own := map[string]bool{}
					for _, st := range b.List {
						if as, ok := st.(*ast.AssignStmt); ok && as.Tok == token.DEFINE {
							for _, l := range as.Lhs {
								if id, ok := l.(*ast.Ident); ok && id.Name != "_" && id.Name != "err" {
									if outer[id.Name] && !own[id.Name] {
										line := fset.Position(id.Pos()).Line
										pos := ""
										if line >= 1 && line <= len(u.Lines) {
											pos = c.P.Pos(u.Lines[line-1].Pos)
										}
										bad["the emitted mock re-declares the local `"+id.Name+"` inside a block nested in the block that declared it"] = pos
									}
									own[id.Name] = true
									declared[id.Name] = true
								}
							}
						}
						ast.Inspect(st, func(n ast.Node) bool {
							switch x := n.(type) {
							case *ast.FuncLit:
								return false
							case *ast.BlockStmt:
								walk(x, declared)
								return false
							}
							return true
						})
					}
				}
				walk(fd.Body, map[string]bool{})
			}
		}
	}
	for _, k := range sortedKeys(bad) {
		r.Bad("R20l", k, bad[k], "the mock emitter expands nested messages recursively and addresses the value it fills by name; a fixed-name local of the emitted code is re-declared by the nested expansion, so the outer expansion's later statements refer to the wrong variable: for a map of messages whose value has a map of messages the mock file does not compile", nil)
	}
	if nFuncs == 0 {
		r.Undec("R20l", "functions of the mock unit", "", "no function parsed in any variant")
		return
	}
	r.OKd("R20l", "no local of the emitted mock code is re-declared in a nested block", "", map[string]any{"functions": nFuncs, "violations": len(bad)})
}

// c20MockOnlyWithServices — R20m. The mock unit refers to the service interfaces of its file and declares file-independent
// package-level helpers (R20f); emitted for a file without services it has nothing to implement, its imports are unused and
// its helpers collide with the mock unit of the service file in the same Go package. go-http's generateFile is explored
// (every arm of every guard): in no variant in which the file has no services may the mock unit be created.
func c20MockOnlyWithServices(c *Ctx) {
	r := c.R
	r.Rule("R20m", "the mock unit is created only for files that declare services", 1)
	gf := c.P.Func(pkgHTTP, "Generator.generateFile")
	if gf == nil {
		r.Unres("R20m", "httpgen generateFile", "", "not found")
		return
	}
	pos := c.P.Pos(c.P.Decls[gf].Pos())
	level := 1
	if c.Thorough() {
		level = 2
	}
	ex := c.Explore(gf, level, 30000)
	for _, pr := range ex.Problems {
		r.Unres("R20m", "unmodelled: generateFile", pos, pr)
	}
	nNoSvc, nMock := 0, 0
	bad := ""
	for _, v := range ex.Variants {
		noSvc := false
		for k, val := range v.Dec {
			if eraseIters(k) == "n:file.Services" && countArms[val] == 0 {
				noSvc = true
			}
		}
		hasMock := false
		for _, u := range v.Units {
			if u.Suffix() == "_http_mock.pb.go" {
				hasMock = true
			}
		}
		if hasMock {
			nMock++
		}
		if noSvc {
			nNoSvc++
			if hasMock && bad == "" {
				bad = v.DecString()
			}
		}
	}
	if nNoSvc == 0 || nMock == 0 {
		r.Undec("R20m", "mock unit wiring in generateFile", pos, fmt.Sprintf("exploration of generateFile produced %d variants without services and %d variants with a mock unit", nNoSvc, nMock))
		return
	}
	r.CheckD(bad == "", "R20m", "go-http generateFile creates *_http_mock.pb.go only when the file declares a service", pos,
		"with the mock option on, generateFile creates the mock unit for a file without services (decisions {"+bad+"}): the unit's context/proto imports are unused and its package-level helpers (fieldExamples, select*Example, init) are declared again by the service file's mock unit of the same Go package — the package does not build", map[string]any{"variants_without_services": nNoSvc, "variants_with_mock": nMock})
}

// c20MapKeyLiterals — R20n. The mock indexes a map-typed response field with a sample key literal chosen by the key's kind.
// protobuf admits string, bool and every integer kind as map key. The chooser is interpreted on a concrete key field of
// each kind and the literal must be a constant of the key's Go type (go/types on `var m map[K]int; _ = m[<literal>]`).
func c20MapKeyLiterals(c *Ctx) {
	r := c.R
	r.Rule("R20o", "the generate_mock option is read by a boolean parser that accepts every spelling the flag package accepts", 1)
	c20MockOptionParsed(c, "R20o")
	r.Rule("R20n", "the sample key the mock uses to fill a map field is a constant of the map's key type, for every key kind protobuf admits (string, bool, all integer kinds)", 12)
	fn := c.P.Func(pkgHTTP, "Generator.getSampleMapKey")
	if fn == nil {
		r.Unres("R20n", "httpgen getSampleMapKey", "", "not found")
		return
	}
	pos := c.P.Pos(c.P.Decls[fn].Pos())
	prev := c.W.Concrete
	c.W.Concrete = true
	defer func() { c.W.Concrete = prev }()
	pname := ""
	for _, f := range c.P.Decls[fn].Type.Params.List {
		for _, n := range f.Names {
			pname = n.Name
		}
	}
	goKey := map[string]string{"string": "string", "bool": "bool", "int32": "int32", "sint32": "int32", "sfixed32": "int32", "int64": "int64", "sint64": "int64", "sfixed64": "int64",
		"uint32": "uint32", "fixed32": "uint32", "uint64": "uint64", "fixed64": "uint64"}
	for _, kind := range sortedKeys(goKey) {
		run := c.W.NewRun(map[string]int{}, false)
		run.InlineAll, run.FollowSlices = true, true
		run.CallHook = c.cdescHook
		run.StartArgs(fn, map[string]Val{pname: fld("key", kind).val()})
		key := "mock map key literal for key kind " + kind
		sv, ok := run.Result.(VStr)
		lit, isConst := "", false
		if ok {
			lit, isConst = sv.isConst()
		}
		if !ok || !isConst || len(run.Used) > 0 {
			r.Undec("R20n", key, pos, fmt.Sprintf("not evaluated to a constant (result %T, open decisions %v)", run.Result, usedKeys(run)))
			continue
		}
		src := "package w\nvar m map[" + goKey[kind] + "]int\nvar _ = m[" + lit + "]\n"
		fset := token.NewFileSet()
		f, err := parser.ParseFile(fset, "w.go", src, 0)
		msg := ""
		if err != nil {
			msg = err.Error()
		} else {
			conf := types.Config{Error: func(e error) {
				if msg == "" {
					msg = e.Error()
				}
			}}
			conf.Check("w", fset, []*ast.File{f}, nil)
		}
		r.CheckD(msg == "", "R20n", key, pos,
			fmt.Sprintf("for a map<%s, …> response field the mock emits `resp.F[%s] = …`: %s — the package with the mock file does not build", kind, lit, msg), map[string]any{"literal": lit})
	}
}

// c20MockOptionParsed — R20o. The generate_mock plugin parameter is a boolean option: the go-http main reads it with the
// flag package's boolean parser (flag.FlagSet.BoolVar + Set as ParamFunc) or strconv.ParseBool, which accept 1, t, T, TRUE,
// true, True. A hand-written comparison with one spelling (`value == "true"`) silently switches the mock off for every
// other spelling the option used to accept: the plugin succeeds and the mock file is missing.
func c20MockOptionParsed(c *Ctx, rid string) {
	r := c.R
	rel := "cmd/protoc-gen-go-http"
	pk := c.P.Pkg(rel)
	if pk == nil {
		r.Unres(rid, rel, "", "package not loaded")
		return
	}
	info := pk.TypesInfo
	found := false
	for _, f := range pk.Syntax {
		ast.Inspect(f, func(n ast.Node) bool {
			kv, ok := n.(*ast.KeyValueExpr)
			if !ok || types.ExprString(kv.Key) != "ParamFunc" {
				return true
			}
			found = true
			pos := c.P.Pos(kv.Pos())
			val := ast.Unparen(kv.Value)
			if id, ok := val.(*ast.Ident); ok {
				if fd := c.P.Decls[asFunc(info.ObjectOf(id))]; fd != nil {
					val = &ast.FuncLit{Type: fd.Type, Body: fd.Body}
				}
			}
			switch x := val.(type) {
			case *ast.SelectorExpr:
				// flags.Set of a flag.FlagSet on which generate_mock is registered with BoolVar / Bool
				okSet := false
				if sel, ok := info.Selections[x]; ok && sel.Obj().Name() == "Set" && typeIsNamed(sel.Recv(), "flag", "FlagSet") {
					okSet = true
				}
				reg := false
				ast.Inspect(f, func(m ast.Node) bool {
					if call, ok := m.(*ast.CallExpr); ok {
						if cal := Callee(info, call); cal != nil && cal.Pkg() != nil && cal.Pkg().Path() == "flag" && (cal.Name() == "BoolVar" || cal.Name() == "Bool") {
							for _, a := range call.Args {
								if tv, ok := info.Types[a]; ok && tv.Value != nil && tv.Value.Kind() == constant.String && constant.StringVal(tv.Value) == "generate_mock" {
									reg = true
								}
							}
						}
					}
					return true
				})
				r.Check(okSet && reg, rid, "generate_mock is parsed by the flag package's boolean parser", pos,
					fmt.Sprintf("ParamFunc is %s (a flag.FlagSet's Set: %v; generate_mock registered with BoolVar/Bool: %v)", types.ExprString(x), okSet, reg))
			case *ast.FuncLit:
				parses, compares := false, ""
				ast.Inspect(x.Body, func(m ast.Node) bool {
					switch y := m.(type) {
					case *ast.CallExpr:
						if cal := Callee(info, y); cal != nil && cal.Pkg() != nil && cal.Pkg().Path() == "strconv" && cal.Name() == "ParseBool" {
							parses = true
						}
						if cal := Callee(info, y); cal != nil && cal.Pkg() != nil && cal.Pkg().Path() == "flag" && cal.Name() == "Set" {
							parses = true
						}
					case *ast.BinaryExpr:
						if y.Op == token.EQL || y.Op == token.NEQ {
							for _, side := range []ast.Expr{y.X, y.Y} {
								if tv, ok := info.Types[side]; ok && tv.Value != nil && tv.Value.Kind() == constant.String {
									if s := strings.ToLower(constant.StringVal(tv.Value)); s == "true" || s == "false" || s == "1" || s == "0" {
										compares = types.ExprString(y)
									}
								}
							}
						}
					}
					return true
				})
				r.Check(parses && compares == "", rid, "generate_mock is parsed as a boolean (strconv.ParseBool / flag), not compared with one spelling", pos,
					fmt.Sprintf("the hand-written ParamFunc decides the option with `%s` (boolean parser used: %v): generate_mock=1, =t, =TRUE, =True — all accepted by the flag package the option was defined with — now leave the mock switched off, silently", compares, parses))
			default:
				r.Undec(rid, "ParamFunc of protoc-gen-go-http", pos, "ParamFunc is neither a FlagSet's Set nor a function literal")
			}
			return true
		})
	}
	if !found {
		r.Unres(rid, "ParamFunc of protoc-gen-go-http", "", "protogen.Options literal with a ParamFunc not found: generate_mock cannot be switched on")
	}
}

func asFunc(o types.Object) *types.Func {
	f, _ := o.(*types.Func)
	return f
}
