package main

// C13 — everything the generators emit builds: Go compiles and vets, TypeScript loads.

import (
	"go/parser"
	"fmt"
	"go/ast"
	"go/token"
	"go/types"
	"regexp"
	"sort"
	"strconv"
	"strings"
)

func init() { props["C13"] = checkC13 }

// goUnitRoots: Go-emitting unit roots of both Go plugins.
func (c *Ctx) goUnitRoots() []RootInfo {
	var out []RootInfo
	for _, ri := range c.Roots() {
		if (ri.Pkg == pkgHTTP || ri.Pkg == pkgClient) && strings.HasSuffix(ri.Suffix, ".go") {
			out = append(out, ri)
		}
	}
	return out
}

// importProblems: unused imports and package qualifiers used without import.
func importProblems(f *ast.File) []string {
	imported := map[string]string{} // local name -> path
	for _, im := range f.Imports {
		p, _ := strconv.Unquote(im.Path.Value)
		name := p[strings.LastIndex(p, "/")+1:]
		if im.Name != nil {
			name = im.Name.Name
		}
		imported[name] = p
	}
	used := map[string]bool{}
	// identifiers declared anywhere in the file shadow nothing here: emitted code never reuses a package name for a local
	declared := map[string]bool{}
	ast.Inspect(f, func(n ast.Node) bool {
		switch x := n.(type) {
		case *ast.AssignStmt:
			if x.Tok == token.DEFINE {
				for _, l := range x.Lhs {
					if id, ok := l.(*ast.Ident); ok {
						declared[id.Name] = true
					}
				}
			}
		case *ast.ValueSpec:
			for _, id := range x.Names {
				declared[id.Name] = true
			}
		case *ast.Field:
			for _, id := range x.Names {
				declared[id.Name] = true
			}
		}
		return true
	})
	var probs []string
	ast.Inspect(f, func(n ast.Node) bool {
		if sel, ok := n.(*ast.SelectorExpr); ok {
			if id, ok := sel.X.(*ast.Ident); ok && id.Obj == nil {
				if _, isImp := imported[id.Name]; isImp {
					used[id.Name] = true
				} else if !declared[id.Name] && stdQualifiers[id.Name] {
					probs = append(probs, fmt.Sprintf("%s.%s is used but package %q is not imported", id.Name, sel.Sel.Name, id.Name))
				}
			}
		}
		return true
	})
	for name, p := range imported {
		if !used[name] && name != "_" {
			probs = append(probs, fmt.Sprintf("package %q is imported and not used", p))
		}
	}
	sort.Strings(probs)
	// dedupe
	var out []string
	for i, p := range probs {
		if i == 0 || probs[i-1] != p {
			out = append(out, p)
		}
	}
	return out
}

// package qualifiers the generators can print
var stdQualifiers = map[string]bool{"bytes": true, "context": true, "json": true, "errors": true, "fmt": true, "io": true, "http": true, "url": true,
	"strconv": true, "strings": true, "sync": true, "time": true, "utf8": true, "protojson": true, "proto": true, "protoreflect": true,
	"sebufhttp": true, "protovalidate": true, "hex": true, "base64": true, "rand": true, "cryptorand": true, "timestamppb": true}

// userTextAccessors: provenance fragments that denote free text supplied by the
// schema author (option strings). Emitted inside a Go/TS string literal or
// comment they must be quoted/escaped.
var userTextAccessors = []string{".GetName()", ".GetDescription()", ".GetExample()", ".GetFormat()", ".GetType()", "GetFieldExamples(", ".DiscriminatorVal", ".Discriminator",
	"GetFlattenPrefix(", "GetEnumValue(", ".ParamName", ".BasePath", ".Path", "GetServiceBasePath(", ".GetValue()", ".PathParams@", "getPathParams("}

func isUserText(key string) string {
	for _, a := range userTextAccessors {
		if strings.Contains(key, a) {
			return a
		}
	}
	return ""
}

func checkC13(c *Ctx) {
	r := c.R
	r.Explain = "Decides structural clauses of C13 on the emitted text reconstructed from the generators' syntax tree (emission grammar; every arm of every guard, loops unrolled 0/1/2 times with different arms per iteration; thorough: every pair of arms). R13a every Go variant of every unit parses (go/parser) and the constant server runtime type-checks against the real dependency packages. R13h/R08a every TypeScript variant has balanced delimiters, terminated literals and no block-scoped name declared twice in one block (lexical; TypeScript is not type-checked: no TS front end exists in the sandbox). R13e in every Go variant every import is used and every package qualifier is imported (the client unit is explored with its import-deciding helpers followed, so import decisions and uses are correlated). R13b field-shape compatibility: for each codec emitter and each field shape (kind x singular/optional/oneof-member/repeated) that its collector lets through and that the documented rules accept, the emitted methods are type-checked against a synthesized stand-in for protoc-gen-go's struct (field of the shape's Go type). R13c two features that both declare MarshalJSON on one message must be excluded by a conflict check. R13d schema-author free text printed into string literals/comments must be quoted. R13f identifiers used as Go field selectors must come from protogen's GoName. R13k a message or enum type reached through a field (or a method's input/output) is printed in type position as its GoIdent, which protogen qualifies and imports, never by its bare GoName. Not decided: complete type-checking of holed units for arbitrary descriptors beyond the enumerated field-use worlds; TypeScript typing; cross-file duplicate declarations in one Go package."
	r.Trusted = []string{"go/parser and go/types accept exactly what the Go compiler's front end accepts", "protoc-gen-go's field type mapping (protobuf-go generated-code guide)"}
	r.Rule("R13a", "every Go variant of every emitted unit parses; the constant runtime type-checks", 20)
	r.Rule("R13i", "printf-style calls in emitted Go have one verb per argument (go vet printf check)", 10)
	r.Rule("R13h", "every TypeScript variant is lexically well-formed (balanced, no duplicate block-scoped declaration)", 2)
	r.Rule("R13e", "imports agree with uses in every Go variant", 20)
	r.Rule("R13c", "no two features emit MarshalJSON for the same message without a conflict check", 12)
	r.Rule("R13d", "free-text options printed into literals or comments are quoted", 10)
	r.Rule("R13k", "types reached through a field or a method signature are printed as GoIdent (qualified, imported), never by bare name", 1)
	r.Rule("R13f", "Go field selectors are spelled with protogen's GoName", 2)
	r.Rule("R13b", "emitted field uses type-check for every field shape the emitter can be reached with", 20)

	level, maxRuns := 1, 6000
	if c.Thorough() {
		level, maxRuns = 2, 120000
	}
	// ---------------- Go units
	nGo := 0
	for _, ri := range c.goUnitRoots() {
		ex := c.Explore(ri.Fn, level, maxRuns)
		for _, p := range ex.Problems {
			r.Unres("R13a", pkgShort(ri.Pkg)+" *"+ri.Suffix+" emission model", "", p)
		}
		parseBad := ""
		var parsePos string
		var parseDet map[string]any
		fmtBad := map[string]string{}
		for _, v := range ex.Variants {
			for _, u := range v.Units {
				nGo++
				fset, pf, err := ParseUnit(u)
				if err == nil {
					// R13i: printf-style calls with a constant format: one verb per argument
					ast.Inspect(pf, func(n ast.Node) bool {
						call, ok := n.(*ast.CallExpr)
						if !ok || len(call.Args) == 0 {
							return true
						}
						fn := types.ExprString(call.Fun)
						if fn != "fmt.Errorf" && fn != "fmt.Sprintf" && fn != "fmt.Printf" && fn != "fmt.Fprintf" {
							return true
						}
						ai := 0
						if fn == "fmt.Fprintf" {
							ai = 1
						}
						if ai >= len(call.Args) || call.Ellipsis.IsValid() {
							return true
						}
						lit, ok := call.Args[ai].(*ast.BasicLit)
						if !ok || lit.Kind != token.STRING {
							return true
						}
						f, uerr := strconv.Unquote(lit.Value)
						if uerr != nil {
							return true
						}
						// schema text spliced into the FORMAT (not passed as an argument): a `%` in it becomes a verb
						if hm := holeMarker.FindString(f); hm != "" && unsafeInFormat(u, hm) {
							line := fset.Position(call.Pos()).Line
							pos := ""
							if line >= 1 && line <= len(u.Lines) {
								pos = c.P.Pos(u.Lines[line-1].Pos)
							}
							k := fmt.Sprintf("%s: %s has generation-time text inside its format string (%s)", pos, fn, holeFree(lit.Value))
							if _, ok := fmtBad[k]; !ok {
								fmtBad[k] = pos
							}
							return true
						}
						verbs := 0
						for i := 0; i < len(f); i++ {
							if f[i] != '%' {
								continue
							}
							if i+1 < len(f) && f[i+1] == '%' {
								i++
								continue
							}
							verbs++
						}
						if nargs := len(call.Args) - ai - 1; nargs != verbs {
							line := fset.Position(call.Pos()).Line
							pos, em := "", holeFree(lit.Value)
							if line >= 1 && line <= len(u.Lines) {
								pos = c.P.Pos(u.Lines[line-1].Pos)
							}
							k := fmt.Sprintf("%s: %s(%s) has %d verbs for %d arguments", pos, fn, em, verbs, nargs)
							if _, ok := fmtBad[k]; !ok {
								fmtBad[k] = pos
							}
						}
						return true
					})
				}
				if err != nil && parseBad == "" {
					parseBad = err.Error()
					line := 0
					parts := strings.Split(err.Error(), ":")
					if len(parts) > 2 {
						line, _ = strconv.Atoi(parts[1])
					}
					if line >= 1 && line <= len(u.Lines) {
						parsePos = c.P.Pos(u.Lines[line-1].Pos)
						parseDet = map[string]any{"emitted_line": lineText(u.Lines[line-1].Segs), "decisions": v.DecString()}
					}
				}
			}
		}
		key := pkgShort(ri.Pkg) + " *" + ri.Suffix
		r.CheckD(parseBad == "", "R13a", key+": every variant parses", parsePos, "an emitted Go file is not syntactically valid: "+parseBad, parseDet)
		for _, k := range sortedKeys(fmtBad) {
			r.Bad("R13i", key+": "+k[strings.Index(k, ": ")+2:], fmtBad[k],
				"emitted code calls a printf-style function whose constant format does not have one verb per argument (go vet's printf check fails on the generated package; a doubled %% is a literal percent sign, so e.g. `%%w` does not wrap the error and the argument is printed as %!(EXTRA …)): "+k, nil)
		}
		if len(fmtBad) == 0 {
			r.OK("R13i", key+": printf-style calls have one verb per argument", "")
		}
		r.Count("variants:"+key, len(ex.Variants))
	}
	// imports: each unit root explored with the collector invariants fixed; units that generateFile creates
	// only for files with services are explored with at least one service. The client unit is explored with its
	// import-deciding helpers followed and with pairs of decisions (an import condition and the use it must cover
	// are two decisions apart: "no path variable" and "verb is DELETE").
	for _, ri := range c.goUnitRoots() {
		needsService := c.createdOnlyWithServices(ri)
		c.W.FixRuns = func(dk, cr string) (int, bool) {
			if needsService && dk == "n:file.Services" {
				return 1, true
			}
			return invariantFix(dk, cr)
		}
		var ex *Exploration
		if ri.Suffix == "_client.pb.go" {
			c.W.InlineAllRuns = true
			ex = c.W.Explore(ri.Fn, 2, 30000)
			c.W.InlineAllRuns = false
		} else {
			ex = c.W.Explore(ri.Fn, 1, 10000)
		}
		c.W.FixRuns = nil
		probsSeen := map[string]string{}
		for _, v := range ex.Variants {
			for _, u := range v.Units {
				_, f, err := ParseUnit(u)
				if err != nil {
					continue
				}
				for _, p := range importProblems(f) {
					if _, ok := probsSeen[p]; !ok {
						probsSeen[p] = v.DecString()
					}
				}
			}
		}
		key := pkgShort(ri.Pkg) + " *" + ri.Suffix
		if len(probsSeen) == 0 {
			r.OK("R13e", key+": imports match uses in every variant", "")
		}
		for _, p := range sortedKeys(probsSeen) {
			r.Bad("R13e", key+": "+p, c.P.Pos(c.P.Decls[ri.Fn].Pos()), "the emitted file does not compile: "+p+" (decisions: "+probsSeen[p]+")", nil)
		}
	}
	r.Count("go_unit_variants_parsed", nGo)
	if ep, err := c.ServerRuntime(); err != nil {
		r.Bad("R13a", "go-http runtime (binding + config units) type-checks", "", err.Error(), nil)
	} else {
		r.OKd("R13a", "go-http runtime (binding + config units) type-checks", "", map[string]any{"functions": len(ep.Funcs)})
	}

	// ---------------- TS units
	for _, ri := range c.Roots() {
		if !strings.HasSuffix(ri.Suffix, ".ts") {
			continue
		}
		ex := c.Explore(ri.Fn, level, maxRuns)
		if ri.Pkg == pkgTSServer || ri.Pkg == pkgTSClient {
			// the route emitters decide in helpers which of `url`, `pathParams`, `body` a block declares: follow them
			ex = c.ExploreDeep(ri.Fn, level, 40000)
		}
		for _, p := range ex.Problems {
			r.Unres("R13h", pkgShort(ri.Pkg)+" *"+ri.Suffix+" emission model", "", p)
		}
		bad, pos := "", ""
		var det map[string]any
		for _, v := range ex.Variants {
			for _, u := range v.Units {
				if probs := tsCheck(u.Text()); len(probs) > 0 && bad == "" {
					p := probs[0]
					bad = p.Msg
					if p.Line >= 1 && p.Line <= len(u.Lines) {
						pos = c.P.Pos(u.Lines[p.Line-1].Pos)
						det = map[string]any{"emitted_line": lineText(u.Lines[p.Line-1].Segs), "decisions": v.DecString()}
					}
				}
			}
		}
		r.CheckD(bad == "", "R13h", pkgShort(ri.Pkg)+" *"+ri.Suffix+": every variant is lexically well-formed", pos,
			"an emitted TypeScript module cannot load: "+bad, det)
		r.Count("variants:"+pkgShort(ri.Pkg)+" *"+ri.Suffix, len(ex.Variants))
	}

	c13DefUse(c)
	// ---------------- R13d / R13f over all emitted lines (static per line)
	type agg struct {
		pos     string
		example string
		n       int
	}
	unq := map[string]*agg{}
	sel := map[string]*agg{}
	bare := map[string]*agg{}
	okIdent := 0
	okSel, okQuoted := 0, 0
	for _, ri := range c.Roots() {
		if strings.HasSuffix(ri.Suffix, ".yaml") {
			continue
		}
		ex := c.ExploreT(ri.Fn, 6000)
		isGo := strings.HasSuffix(ri.Suffix, ".go")
		for _, v := range ex.Variants {
			for _, u := range v.Units {
				for _, l := range u.Lines {
					text := lineText(l.Segs)
					inComment := false
					offset := 0
					for si, sg := range l.Segs {
						if sg.Hole == nil {
							offset += len(sg.Const)
							continue
						}
						name := HoleName(sg.Hole)
						before := text[:offset]
						offset += len(name)
						if i := strings.Index(before, "//"); i >= 0 && strings.Count(before[:i], `"`)%2 == 0 {
							inComment = true
						}
						inString := strings.Count(before, `"`)%2 == 1 || strings.Count(before, "`")%2 == 1
						fnName := "?"
						if l.Fn != nil {
							fnName = l.Fn.Name()
						}
						if acc := isUserText(sg.Hole.Key); acc != "" && (inString || inComment) {
							if sg.Hole.Quoted {
								okQuoted++
							} else {
								where := "string literal"
								if inComment && !inString {
									where = "comment"
								}
								if where == "comment" && strings.HasSuffix(acc, "Path") {
									continue // file names / paths cannot contain a newline
								}
								// identity of the site: the constant text the line starts with
								// (stable under changes of how the printed value is composed)
								snippet := ""
								for _, s0 := range l.Segs {
									if s0.Hole != nil {
										if snippet != "" {
											break
										}
										snippet = "*"
										continue
									}
									snippet += s0.Const
									// stop at the first piece that carries text; a bare comment marker does not (hoisting
									// "With"+name into a local must not move the boundary of `// With<Name> …`)
									if t0 := strings.TrimSpace(snippet); t0 != "" && t0 != "//" {
										break
									}
								}
								snippet = strings.TrimSpace(snippet)
								if len(snippet) > 48 {
									snippet = snippet[:48]
								}
								// the names of emitted locals are not part of the identity either
								snippet = eraseEmittedLocals(snippet)
								// the emitter's name is not part of the identity: extracting the statement into a helper does not make it a new finding
								k := fmt.Sprintf("%s prints %s unquoted into a %s: %s", pkgShort(ri.Pkg), strings.Trim(acc, ".(@"), where, snippet)
								if unq[k] == nil {
									unq[k] = &agg{pos: c.P.Pos(l.Pos), example: holeFree(text)}
								}
								unq[k].n++
							}
						}
						// type position in Go code (&T{, *T, []T, map[K]T, new(T)): a message or enum reached through a field
						// (or a method's input/output) may live in another Go package; only the GoIdent is qualified
						// and imported by protogen, its bare GoName is not
						if isGo && !inString && !inComment && si > 0 && l.Segs[si-1].Hole == nil {
							prev := l.Segs[si-1].Const
							if strings.HasSuffix(prev, "&") || strings.HasSuffix(prev, "*") || strings.HasSuffix(prev, "]") || strings.HasSuffix(prev, "new(") {
								ek := eraseIters(sg.Hole.Key)
								if strings.HasSuffix(strings.TrimRight(before, "*"), "map[") {
									// map key position: keys are scalars, the message arm of the type helper is unreachable there
								} else if foreignTypeName.MatchString(ek) {
									k := fmt.Sprintf("%s %s names the type %s by its bare GoName", pkgShort(ri.Pkg), fnName, ek)
									if bare[k] == nil {
										bare[k] = &agg{pos: c.P.Pos(l.Pos), example: holeFree(text)}
									}
									bare[k].n++
								} else if sg.Hole.GoIdent {
									okIdent++
								}
							}
						}
						// selector position in Go code: previous const segment ends with "." and we are not in a string/comment
						if isGo && !inString && !inComment && si > 0 && l.Segs[si-1].Hole == nil && strings.HasSuffix(l.Segs[si-1].Const, ".") {
							prev := l.Segs[si-1].Const
							// x.<hole> / req.<hole> / resp.<hole> — a field of a generated message
							if strings.HasSuffix(prev, "x.") || strings.HasSuffix(prev, "req.") || strings.HasSuffix(prev, "resp.") || strings.HasSuffix(prev, "wrapper.") {
								key := sg.Hole.Key
								if strings.HasSuffix(key, ".GoName") || strings.HasSuffix(key, "FieldGoName") || strings.Contains(key, ".GoName+") || strings.HasSuffix(key, ".GoName}\"") {
									okSel++
								} else {
									k := fmt.Sprintf("%s selects a message field spelled by %s", pkgShort(ri.Pkg), eraseIters(holeFreeKey(key)))
									if sel[k] == nil {
										sel[k] = &agg{pos: c.P.Pos(l.Pos), example: holeFree(text)}
									}
									sel[k].n++
								}
							}
						}
					}
				}
			}
		}
	}
	for _, k := range sortedKeys(unq) {
		r.Bad("R13d", k, unq[k].pos, "schema-author text is printed unescaped: a value containing a double quote, backslash or newline yields a file that does not compile/load (emitted: "+unq[k].example+")", nil)
	}
	r.OKd("R13d", "quoted free-text holes", "", map[string]any{"quoted": okQuoted, "unquoted_sites": len(unq)})
	for _, k := range sortedKeys(sel) {
		r.Bad("R13f", k, sel[k].pos, "a Go field selector is derived by string case conversion instead of protogen's GoName: for names where the two differ (digits after underscores, leading underscores) the emitted code does not compile (emitted: "+sel[k].example+")", nil)
	}
	for _, k := range sortedKeys(bare) {
		r.Bad("R13k", k, bare[k].pos, "a type that may be declared in another Go package (the message or enum of a field, a method's input or output) is printed by its bare GoName: protogen qualifies and imports only a GoIdent, so for an imported type the emitted file refers to an undefined identifier and does not compile (emitted: "+bare[k].example+")", nil)
	}
	r.OKd("R13k", "type references printed as GoIdent", "", map[string]any{"sites": okIdent, "bare": len(bare)})
	r.OKd("R13f", "field selectors with GoName provenance", "", map[string]any{"sites": okSel})

	// ---------------- R13c duplicate MarshalJSON
	checkMarshalJSONExclusivity(c)

	// ---------------- R13b shape worlds
	checkShapeWorlds(c, "R13b")
	clientQueryWorlds(c, "R13b")
	r.Rule("R13l", "route registration of a concrete four-method service: every variable a route's registration uses is assigned for that method beforehand (shared with C17/R17f) — a per-method assignment emitted only for some methods leaves a use without a declaration", 1)
	c17RouteOwnHeaders(c, "R13l")
	r.Rule("R13m", "codec units emitted for the concrete corpus files (partially annotated enums, nested messages, every annotation constant) contain no duplicate key in a map literal and no duplicate case in a switch — both are compile errors that only concrete descriptor values expose", 10)
	corpusDuplicateKeys(c, "R13m")
	r.Rule("R13n", "the typed header helpers of the Go client are declared once each, also when several methods declare a header of the same name or a method re-declares a service header", 3)
	clientHeaderHelpersUnique(c, "R13n")
}

// clientHeaderHelpersUnique — R13n. The Go client's helper emitter is interpreted on concrete services (header names are
// values, so equal names print equal identifiers): a service header re-declared by a method, one header name required by
// two methods, and two spellings of one name. Every top-level `func Name(` of the printed text must be unique.
func clientHeaderHelpersUnique(c *Ctx, rid string) {
	r := c.R
	fn := c.P.Func(pkgClient, "Generator.generateHeaderHelperOptions")
	if fn == nil {
		r.Unres(rid, "clientgen header helper emitter", "", "generateHeaderHelperOptions not found")
		return
	}
	pos := c.P.Pos(c.P.Decls[fn].Pos())
	prev := c.W.Concrete
	c.W.Concrete = true
	defer func() { c.W.Concrete = prev }()
	hl := func(key string, names ...string) VList {
		l := VList{Key: key, Elems: []Val{}}
		for _, n := range names {
			l.Elems = append(l.Elems, cHeader(n, "string", "", true))
		}
		return l
	}
	type scen struct {
		name             string
		service          []string
		method1, method2 []string
	}
	for _, sc := range []scen{
		{"distinct service and method headers", []string{"X-Api-Key"}, []string{"X-Request-ID"}, []string{"Idempotency-Key"}},
		{"a method re-declares a service header", []string{"X-Api-Key"}, []string{"X-Api-Key"}, nil},
		{"two methods declare the same header", nil, []string{"Idempotency-Key"}, []string{"Idempotency-Key"}},
		{"two methods declare the same header, the service another", []string{"X-Api-Key"}, []string{"X-Request-ID"}, []string{"X-Request-ID"}},
		{"two different header names that give one Go identifier (service and method)", []string{"X-Request-ID"}, []string{"Request-ID"}, nil},
		{"two different header names that give one Go identifier (one list)", []string{"X-API-Key", "X-APIKey"}, nil, nil},
		{"two different header names that give one Go identifier (two methods)", nil, []string{"X-Trace-ID"}, []string{"Trace-ID"}},
		{"one header spelled in two letter cases", []string{"X-Api-Key"}, []string{"x-api-key"}, nil},
	} {
		in, out := cMessage("Req"), cMessage("Resp")
		m1 := cMethod("GetItem", in, out, map[string]Val{"@GetMethodHeaders": hl("mh1", sc.method1...)})
		m2 := cMethod("PutItem", in, out, map[string]Val{"@GetMethodHeaders": hl("mh2", sc.method2...)})
		svc := cService("Items", m1, m2)
		svc.Fields["@GetServiceHeaders"] = hl("sh", sc.service...)
		run := c.W.NewRun(map[string]int{}, false)
		run.InlineAll, run.FollowSlices = true, true
		run.CallHook = c.cdescHook
		run.Units = []*Unit{{}}
		run.StartArgs(fn, map[string]Val{"service": svc})
		key := "go-client header helpers are declared once: " + sc.name
		if len(run.Used) > 0 || run.Aborted != "" {
			r.Undec(rid, key, pos, fmt.Sprintf("open decisions %v aborted %q", usedKeys(run), run.Aborted))
			continue
		}
		seen := map[string]int{}
		declRe := regexp.MustCompile(`^func ([A-Za-z_][A-Za-z0-9_]*)\(`)
		for _, u := range run.Units {
			for _, l := range u.Lines {
				if m := declRe.FindStringSubmatch(strings.TrimSpace(lineText(l.Segs))); m != nil {
					seen[m[1]]++
				}
			}
		}
		var dups []string
		for _, n := range sortedKeys(seen) {
			if seen[n] > 1 {
				dups = append(dups, fmt.Sprintf("%s ×%d", n, seen[n]))
			}
		}
		r.CheckD(len(dups) == 0 && len(seen) > 0, rid, key, pos,
			fmt.Sprintf("service headers %v, method headers %v / %v: the emitted *_client.pb.go declares %s — `redeclared in this block`, the generated client package does not compile", sc.service, sc.method1, sc.method2, strings.Join(dups, ", ")), map[string]any{"functions": len(seen)})
	}
}

// corpusDuplicateKeys — R13m. Symbolic exploration prints one placeholder per descriptor value, so two emitted map keys or
// case labels that coincide only for some descriptors (the proto name of an enum value listed once as its own JSON form and
// once as the fallback spelling) look different there. On the concrete corpus files the emitted text has real names: every
// unit of both Go plugins is parsed, and constant keys of each map literal and constant labels of each switch must be distinct.
func corpusDuplicateKeys(c *Ctx, rid string) {
	r := c.R
	for _, pkg := range []string{pkgHTTP, pkgClient} {
		for _, ri := range c.goUnitRoots() {
			if ri.Pkg != pkg {
				continue
			}
			for _, cf := range corpusFor(ri.Suffix) {
				units, pos, prob := c.runUnitConcrete(pkg, ri.Suffix, cf.File)
				key := fmt.Sprintf("%s *%s on corpus file: %s", pkgShort(pkg), ri.Suffix, cf.Name)
				if prob != "" {
					r.Undec(rid, key, pos, prob)
					continue
				}
				dups := []string{}
				// map literals, line by line (one entry per emitted line; works also where an unescaped custom string keeps
				// the unit from parsing — R13d's finding)
				{
					inMap := false
					seen := map[string]bool{}
					keyRe := regexp.MustCompile(`^("(?:[^"\\]|\\.)*"|[A-Za-z_][A-Za-z0-9_.]*): `)
					for _, l := range unitLines(units) {
						t := strings.TrimSpace(l)
						switch {
						case strings.Contains(t, "= map[") && strings.HasSuffix(t, "{"):
							inMap, seen = true, map[string]bool{}
						case inMap && t == "}":
							inMap = false
						case inMap:
							if m := keyRe.FindStringSubmatch(t); m != nil {
								if seen[m[1]] {
									dups = append(dups, "duplicate key "+m[1]+" in map literal")
								}
								seen[m[1]] = true
							}
						}
					}
				}
				for _, u := range units {
					_, f, err := ParseUnit(u)
					if err != nil {
						continue // R13a / R14e report unparsable corpus units
					}
					ast.Inspect(f, func(n ast.Node) bool {
						switch x := n.(type) {
						case *ast.SwitchStmt:
							seen := map[string]bool{}
							for _, st := range x.Body.List {
								for _, e := range st.(*ast.CaseClause).List {
									if bl, ok := e.(*ast.BasicLit); ok {
										if seen[bl.Value] {
											dups = append(dups, "duplicate case "+bl.Value+" in switch")
										}
										seen[bl.Value] = true
									}
								}
							}
						}
						return true
					})
				}
				r.Check(len(dups) == 0, rid, key, pos, fmt.Sprintf("the file emitted for this concrete definition does not compile: %s", strings.Join(dedupeSorted(dups), "; ")))
			}
		}
	}
}

// clientQueryWorlds — R13b for the Go client's URL builder. (sebuf.http.query) is accepted on a field of any kind and
// cardinality (annotations.GetQueryParams has no filter), so for every field shape the statements the client emits for one
// query parameter — the emitter is interpreted on a concrete QueryParam whose FieldKind is the shape's kind name — are
// type-checked against a request struct whose field has the Go type protoc-gen-go gives that shape.
func clientQueryWorlds(c *Ctx, rule string) {
	r := c.R
	fn := c.P.Func(pkgClient, "Generator.generateQueryParamEncoding")
	if fn == nil {
		r.Unres(rule, "clientgen query parameter emitter", "", "generateQueryParamEncoding not found")
		return
	}
	pos := c.P.Pos(c.P.Decls[fn].Pos())
	type agg struct {
		kinds map[string]bool
		msg   string
		text  string
	}
	bad := map[string]*agg{}
	okKinds := map[string][]string{}
	prevConcrete := c.W.Concrete
	c.W.Concrete = true
	defer func() { c.W.Concrete = prevConcrete }()
	for _, s := range AllShapes() {
		if s.Card == "map" || s.Pres == "oneof" {
			continue // no Go field of the parameter's own type (maps of a kind are not a query shape; oneof members have no direct field)
		}
		kindName := s.descKind()
		cf := fld("zq_field", kindName)
		cf.List = s.Card == "list"
		cf.Opt = s.Pres == "optional"
		if kindName == "message" {
			cf.Msg = cMessage("ShapeMsg")
		}
		qp := cstruct("QueryParam", map[string]Val{
			"FieldName": constStr("zq_field"), "FieldGoName": constStr("ZqField"), "FieldJSONName": constStr("zqField"),
			"ParamName": constStr("zq"), "Required": VBool{B: false}, "FieldKind": constStr(kindName), "Field": cf.val(),
		})
		run := c.W.NewRun(map[string]int{}, false)
		run.InlineAll, run.FollowSlices = true, true
		run.CallHook = c.cdescHook
		run.StartArgs(fn, map[string]Val{"qp": qp})
		class := s.Card
		if s.Card == "singular" {
			class = s.Pres
		}
		if run.Aborted != "" || len(run.Used) > 0 || len(run.Units) == 0 {
			r.Undec(rule, fmt.Sprintf("clientgen query parameter on %s", s), pos, fmt.Sprintf("emitter not decidable on a concrete parameter: aborted %q, open decisions %v, units %d", run.Aborted, usedKeys(run), len(run.Units)))
			continue
		}
		var body strings.Builder
		holes := false
		for _, u := range run.Units {
			for _, l := range u.Lines {
				t := lineText(l.Segs)
				for _, sg := range l.Segs {
					if sg.Hole != nil {
						holes = true
					}
				}
				body.WriteString("\t" + t + "\n")
			}
		}
		if holes {
			r.Undec(rule, fmt.Sprintf("clientgen query parameter on %s", s), pos, "the emitted statements still contain symbolic parts: "+holeFree(body.String()))
			continue
		}
		goType, _ := s.GoType("ShapeMsg", "ShapeEnum")
		src := "package w\n\nimport (\n\t\"fmt\"\n\t\"net/url\"\n\ttimestamppb \"google.golang.org/protobuf/types/known/timestamppb\"\n)\n\nvar _ = timestamppb.Now\nvar _ = fmt.Sprint\n\ntype ShapeMsg struct{}\ntype ShapeEnum int32\n\ntype Req struct{ ZqField " + goType + " }\n\nfunc build(req *Req, queryParams url.Values) {\n" + body.String() + "}\n"
		fset := token.NewFileSet()
		f, err := parser.ParseFile(fset, "w.go", src, 0)
		if err != nil {
			r.Bad(rule, fmt.Sprintf("clientgen query parameter on %s: emitted statements parse", class), pos, "the statements emitted for one query parameter do not parse: "+err.Error(), nil)
			continue
		}
		imp, ierr := c.newImporter(fset)
		if ierr != nil {
			r.Unres(rule, "clientgen query worlds importer", "", ierr.Error())
			return
		}
		var errs []string
		conf := types.Config{Importer: imp, Error: func(e error) {
			if te, ok := e.(types.Error); ok {
				errs = append(errs, te.Msg)
			}
		}}
		conf.Check("w", fset, []*ast.File{f}, nil)
		if len(errs) == 0 {
			okKinds[class] = append(okKinds[class], s.Kind)
			continue
		}
		k := fmt.Sprintf("clientgen query parameter on %s: %s", class, classifyTypeError(errs[0]))
		if bad[k] == nil {
			bad[k] = &agg{kinds: map[string]bool{}, msg: errs[0], text: strings.TrimSpace(strings.SplitN(body.String(), "\n", 2)[0])}
		}
		bad[k].kinds[s.Kind] = true
	}
	for _, class := range sortedKeys(okKinds) {
		r.OKd(rule, fmt.Sprintf("clientgen query parameter on %s {%s} type-checks", class, strings.Join(dedupeSorted(okKinds[class]), ",")), pos, nil)
	}
	for _, k := range sortedKeys(bad) {
		a := bad[k]
		r.Bad(rule, k+" {"+strings.Join(sortedKeys(a.kinds), ",")+"}", pos,
			fmt.Sprintf("(sebuf.http.query) is accepted on a field of this shape by every plugin, but the Go client's URL builder emitted for it does not compile: %s  (emitted line: %s)", a.msg, a.text), nil)
	}
}

// createdOnlyWithServices: the plugin's generateFile creates this unit in no explored variant in which the file declares
// no service (and in some variant in which it declares one). Decided on the exploration of generateFile (every arm of
// every guard), not on the spelling of the guard.
func (c *Ctx) createdOnlyWithServices(ri RootInfo) bool {
	gf := c.P.Func(ri.Pkg, "Generator.generateFile")
	if gf == nil {
		return false
	}
	ex := c.Explore(gf, 1, 30000)
	with, without := false, false
	for _, v := range ex.Variants {
		noSvc := false
		for k, val := range v.Dec {
			if eraseIters(k) == "n:file.Services" && val >= 0 && val < len(countArms) && countArms[val] == 0 {
				noSvc = true
			}
		}
		has := false
		for _, u := range v.Units {
			if u.Suffix() == ri.Suffix {
				has = true
			}
		}
		if has && noSvc {
			without = true
		}
		if has && !noSvc {
			with = true
		}
	}
	return with && !without
}

func holeFreeKey(k string) string {
	if len(k) > 90 {
		k = k[:90] + "…"
	}
	return k
}

// checkMarshalJSONExclusivity — R13c.
func checkMarshalJSONExclusivity(c *Ctx) {
	r := c.R
	for _, pkg := range []string{pkgHTTP, pkgClient} {
		// features: units declaring `func (x *<Msg>) MarshalJSON`
		type feat struct {
			ri    RootInfo
			preds map[*types.Func]bool
		}
		var feats []feat
		for _, ri := range c.goUnitRoots() {
			if ri.Pkg != pkg {
				continue
			}
			ex := c.Explore(ri.Fn, 1, 6000)
			declares := false
			for _, v := range ex.Variants {
				for _, u := range v.Units {
					for _, l := range u.Lines {
						t := lineText(l.Segs)
						if strings.HasPrefix(t, "func (x *") && strings.Contains(t, ") MarshalJSON()") {
							declares = true
						}
					}
				}
			}
			if !declares {
				continue
			}
			// message-selecting predicates: bool functions over *protogen.Message / Field reachable from the root
			preds := map[*types.Func]bool{}
			for _, f := range c.P.Reach(ri.Fn) {
				sig := f.Type().(*types.Signature)
				if sig.Results().Len() != 1 || sig.Params().Len() < 1 {
					continue
				}
				if b, ok := sig.Results().At(0).Type().Underlying().(*types.Basic); !ok || b.Kind() != types.Bool {
					continue
				}
				if typeIsNamed(sig.Params().At(0).Type(), "compiler/protogen", "Message") || typeIsNamed(sig.Params().At(0).Type(), "compiler/protogen", "Field") {
					preds[f] = true
				}
			}
			feats = append(feats, feat{ri, preds})
		}
		// specific predicates
		spec := make([]map[*types.Func]bool, len(feats))
		for i := range feats {
			spec[i] = map[*types.Func]bool{}
			for p := range feats[i].preds {
				only := true
				for j := range feats {
					if j != i && feats[j].preds[p] && !strings.Contains(strings.ToLower(p.Name()), strings.ToLower(featureWord(feats[i].ri.Suffix))) {
						only = false
					}
				}
				if only {
					spec[i][p] = true
				}
			}
		}
		// conflict checks called from each root, evaluated semantically: for feature B the check must refuse a
		// message for which B's predicates hold and no other feature's do
		markers := map[string][]string{"int64": {"Int64Number", "IsInt64NumberEncoding"}, "nullable": {"Nullable"}, "emptybehavior": {"EmptyBehavior"},
			"timestampformat": {"TimestampFormat"}, "bytesencoding": {"BytesEncoding"}, "unwrap": {"Unwrap"}, "flatten": {"Flatten"}, "oneof": {"OneofDiscriminator", "OneofConfig"}}
		conf := make([]map[string]bool, len(feats)) // feature index -> set of feature words it refuses
		for i := range feats {
			conf[i] = map[string]bool{}
			for _, f := range c.P.Reach(feats[i].ri.Fn) {
				if !strings.Contains(f.Name(), "Conflict") || !strings.HasPrefix(strings.ToLower(f.Name()), "check") && !strings.HasPrefix(strings.ToLower(f.Name()), "validate") {
					continue
				}
				for word, ms := range markers {
					fix := func(dk, cr string) (int, bool) {
						if strings.HasPrefix(dk, "n:") {
							return 1, true
						}
						if strings.HasPrefix(dk, "v:") {
							return 1, true // generic shape comparisons (kind is one of the handled kinds): satisfied
						}
						for _, m := range ms {
							if strings.Contains(dk, m) {
								return 1, true
							}
						}
						for w2, ms2 := range markers {
							if w2 == word {
								continue
							}
							for _, m := range ms2 {
								if strings.Contains(dk, m) {
									return 0, true
								}
							}
						}
						if strings.HasPrefix(dk, "b:isnil(") || strings.HasPrefix(dk, "b:isempty(") {
							return 0, true
						}
						return 1, true // generic shape predicates (isInt64Type, IsTimestampField): satisfied
					}
					run := c.W.NewRun(nil, false)
					run.Fix = fix
					run.InlineAll = true
					run.FollowSlices = true
					run.Start(f)
					if run.Aborted != "" {
						conf[i][word] = true
					}
				}
			}
		}
		var uncovered []string
		for i := 0; i < len(feats); i++ {
			for j := i + 1; j < len(feats); j++ {
				covered := conf[i][featureWord(feats[j].ri.Suffix)] || conf[j][featureWord(feats[i].ri.Suffix)]
				a, b := featureWord(feats[i].ri.Suffix), featureWord(feats[j].ri.Suffix)
				if covered {
					r.OK("R13c", fmt.Sprintf("%s: %s + %s on one message is refused by a conflict check", pkgShort(pkg), a, b), "")
				} else {
					uncovered = append(uncovered, a+"+"+b)
				}
			}
		}
		sort.Strings(uncovered)
		r.Check(len(uncovered) == 0, "R13c", fmt.Sprintf("%s: feature pairs that both emit MarshalJSON without a conflict check {%s}", pkgShort(pkg), strings.Join(uncovered, " ")), "",
			"a message that needs two of these codecs gets two `func (x *M) MarshalJSON` / UnmarshalJSON declarations (one per *_<feature>.pb.go file) and the package does not compile; no conflict check refuses the combination")
	}
}

func featureWord(suffix string) string {
	s := strings.TrimSuffix(strings.TrimPrefix(suffix, "_"), ".pb.go")
	switch s {
	case "encoding":
		return "int64"
	case "oneof_discriminator":
		return "oneof"
	}
	return strings.ReplaceAll(s, "_", "")
}

// c13DefUse: R13j — identifiers that an emitter composes from a descriptor value and constant text
// (getXHeaders, xPathParams, xHandler …) must be declared under the same composition where they are used.
func c13DefUse(c *Ctx) {
	r := c.R
	r.Rule("R13j", "composed identifiers (descriptor name + constant text) are declared as they are used", 4)
	ep, _ := c.ServerRuntime()
	runtimeNames := map[string]bool{}
	if ep != nil {
		for n := range ep.Funcs {
			runtimeNames[n] = true
		}
		for _, n := range ep.Pkg.Scope().Names() {
			runtimeNames[n] = true
		}
	}
	for _, ri := range c.goUnitRoots() {
		// deep mode: configuration structs built by helpers are followed, so that a name taken from
		// such a struct has the provenance of the descriptor value it was copied from
		ex := c.ExploreDeep(ri.Fn, 1, 8000)
		bad := map[string]string{}
		nUnits := 0
		for _, v := range ex.Variants {
			// protogen never hands out an empty GoName: variants that take the "name is empty" arm are infeasible
			infeasible := false
			for k, arm := range v.Dec {
				if arm != 0 && strings.Contains(k, "isempty(") && strings.Contains(k, "GoName") {
					infeasible = true
				}
			}
			if infeasible {
				continue
			}
			for _, u := range v.Units {
				_, f, err := ParseUnit(u)
				if err != nil {
					continue
				}
				nUnits++
				declared := map[string]bool{}
				for _, d := range f.Decls {
					switch x := d.(type) {
					case *ast.FuncDecl:
						if x.Recv == nil {
							declared[x.Name.Name] = true
						}
					case *ast.GenDecl:
						for _, sp := range x.Specs {
							switch s := sp.(type) {
							case *ast.ValueSpec:
								for _, n := range s.Names {
									declared[n.Name] = true
								}
							case *ast.TypeSpec:
								declared[s.Name.Name] = true
							}
						}
					}
				}
				for _, id := range f.Unresolved {
					name := id.Name
					if declared[name] || runtimeNames[name] || types.Universe.Lookup(name) != nil {
						continue
					}
					locs := holeRe.FindAllStringIndex(name, -1)
					if len(locs) == 0 {
						continue
					}
					rest := holeRe.ReplaceAllString(name, "")
					if rest == "" || rest == "_" {
						continue // a bare descriptor name (message / enum / wrapper type from the .pb.go file)
					}
					// constant part present: must be declared in this unit under another composition?
					sameRest := ""
					for d := range declared {
						if holeRe.MatchString(d) && holeRe.ReplaceAllString(d, "") == rest {
							sameRest = d
						}
					}
					if sameRest == "" {
						continue // not declared in this unit in any composition (declared in a sibling unit)
					}
					k := fmt.Sprintf("%s *%s: %s…%s used, declared only with another descriptor value", pkgShort(ri.Pkg), ri.Suffix, "", rest)
					if _, ok := bad[k]; !ok {
						bad[k] = fmt.Sprintf("the unit uses an identifier composed as <descriptor value>+%q that it declares only under a different composition (%s vs %s) [raw: %s vs %s; decisions %s]: for descriptors where the two values differ (an RPC whose proto name is not its Go name, e.g. snake_case) the generated file refers to an undefined name", rest, holeFree(name), holeFree(sameRest), name, sameRest, v.DecString())
					}
				}
			}
		}
		for _, k := range sortedKeys(bad) {
			r.Bad("R13j", k, c.P.Pos(c.P.Decls[ri.Fn].Pos()), bad[k], nil)
		}
		if len(bad) == 0 && nUnits > 0 {
			r.OK("R13j", pkgShort(ri.Pkg)+" *"+ri.Suffix+": composed identifiers resolve", "")
		}
	}
}

var foreignTypeName = regexp.MustCompile(`((Field|Fields@|Fields\[\d+\])\.(Message|Enum)|ValueMessage|ElementType|\.Input|\.Output)\.GoIdent\.GoName$`)

// bareForeignTypeNames: holes in type position (&T{, *T, []T, map[K]T, new(T)) of the given unit roots that print a
// field's / method's message or enum type by its bare GoName instead of the GoIdent protogen qualifies and imports.
func bareForeignTypeNames(c *Ctx, rid string, roots []RootInfo) {
	r := c.R
	type agg struct{ pos, ex string }
	bare := map[string]agg{}
	okIdent := 0
	for _, ri := range roots {
		ex := c.ExploreT(ri.Fn, 6000)
		for _, v := range ex.Variants {
			for _, u := range v.Units {
				for _, l := range u.Lines {
					text := lineText(l.Segs)
					offset := 0
					for si, sg := range l.Segs {
						if sg.Hole == nil {
							offset += len(sg.Const)
							continue
						}
						before := text[:offset]
						offset += len(HoleName(sg.Hole))
						if strings.Count(before, `"`)%2 == 1 || strings.Contains(before, "//") || si == 0 || l.Segs[si-1].Hole != nil {
							continue
						}
						prev := l.Segs[si-1].Const
						if !(strings.HasSuffix(prev, "&") || strings.HasSuffix(prev, "*") || strings.HasSuffix(prev, "]") || strings.HasSuffix(prev, "new(")) {
							continue
						}
						if strings.HasSuffix(strings.TrimRight(before, "*"), "map[") {
							continue // map key position: scalars only
						}
						ek := eraseIters(sg.Hole.Key)
						if foreignTypeName.MatchString(ek) {
							bare[pkgShort(ri.Pkg)+" *"+ri.Suffix+" names the type "+ek+" by its bare GoName"] = agg{c.P.Pos(l.Pos), holeFree(text)}
						} else if sg.Hole.GoIdent {
							okIdent++
						}
					}
				}
			}
		}
	}
	for _, k := range sortedKeys(bare) {
		r.Bad(rid, k, bare[k].pos, "a type that may be declared in another Go package is printed by its bare GoName: protogen qualifies and imports only a GoIdent, so for an imported type the emitted file refers to an undefined identifier and does not compile (emitted: "+bare[k].ex+")", nil)
	}
	r.OKd(rid, "type references printed as GoIdent", "", map[string]any{"sites": okIdent, "bare": len(bare)})
}

// holeMarker: the placeholder a reconstructed unit carries where the generator prints a value that is not a constant.
var holeMarker = regexp.MustCompile(`H[0-9A-Za-z]*_[0-9a-f]{4}`)

// unsafeInFormat: the value printed at the marker can contain a `%`: option text (discriminator, json_name, header
// names, examples, descriptions). Go identifiers derived by protogen (GoName, GoIdent) and proto identifiers
// (Desc.Name()) cannot.
func unsafeInFormat(u *Unit, marker string) bool {
	for _, l := range u.Lines {
		for _, sg := range l.Segs {
			if sg.Hole != nil && HoleName(sg.Hole) == marker {
				k := sg.Hole.Key
				if isUserText(k) != "" || strings.Contains(k, "Discriminator") || strings.Contains(k, "JSONName()") || strings.Contains(k, "GetName()") || strings.Contains(k, "Prefix") {
					return true
				}
				return false
			}
		}
	}
	return false
}

var emittedIdentRe = regexp.MustCompile(`[A-Za-z_]\w*`)

var emittedKeywords = map[string]bool{"if": true, "for": true, "func": true, "return": true, "var": true, "const": true, "let": true,
	"case": true, "switch": true, "range": true, "else": true, "await": true, "async": true, "new": true, "type": true, "struct": true,
	"map": true, "string": true, "this": true, "delete": true, "nil": true, "null": true, "true": true, "false": true, "throw": true,
	"export": true, "function": true, "interface": true, "default": true, "break": true, "continue": true, "go": true, "defer": true,
	"byte": true, "int": true, "bool": true, "error": true, "typeof": true, "in": true, "of": true, "undefined": true}

// eraseEmittedLocals replaces, in the code part of a snippet (ahead of its first string literal or comment
// text), every lower-case identifier that is neither a keyword, nor a member after '.', nor a called function
// by "_": `if discRaw, ok := raw["` and `if rv, found := raw["` are the same site.
func eraseEmittedLocals(sn string) string {
	end := len(sn)
	if i := strings.IndexAny(sn, "\"`"); i >= 0 {
		end = i
	}
	if i := strings.Index(sn, "//"); i >= 0 && i < end {
		end = i
	}
	code, rest := sn[:end], sn[end:]
	var b strings.Builder
	last := 0
	for _, m := range emittedIdentRe.FindAllStringIndex(code, -1) {
		id := code[m[0]:m[1]]
		keep := emittedKeywords[id] || !(id[0] >= 'a' && id[0] <= 'z' || id[0] == '_') ||
			(m[0] > 0 && code[m[0]-1] == '.') || (m[1] < len(code) && code[m[1]] == '(') ||
			(strings.HasPrefix(strings.TrimLeft(code[m[1]:], " "), ":") && !strings.HasPrefix(strings.TrimLeft(code[m[1]:], " "), ":=")) // object key
		b.WriteString(code[last:m[0]])
		if keep {
			b.WriteString(id)
		} else {
			b.WriteString("_")
		}
		last = m[1]
	}
	b.WriteString(code[last:])
	return b.String() + rest
}
