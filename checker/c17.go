package main

// C17 — a request's outcome does not depend on other requests, concurrent or earlier.

import (
	"fmt"
	"go/ast"
	"go/token"
	"go/types"
	"regexp"
	"strings"
)

func init() { props["C17"] = checkC17 }

// rootIdentOf returns the identifier at the root of a selector/index/star chain.
func rootIdentOf(e ast.Expr) *ast.Ident {
	for {
		switch x := ast.Unparen(e).(type) {
		case *ast.Ident:
			return x
		case *ast.SelectorExpr:
			e = x.X
		case *ast.IndexExpr:
			e = x.X
		case *ast.StarExpr:
			e = x.X
		case *ast.SliceExpr:
			e = x.X
		default:
			return nil
		}
	}
}

type writeSite struct {
	Name string
	Pos  token.Pos
	How  string
	In   *ast.FuncLit // innermost enclosing function literal (nil: directly in the function)
	Fn   string
}

// writesIn lists syntactic writes (assignment, inc/dec, append-assign, delete,
// address-of) whose target is rooted at an identifier for which want() holds.
func writesIn(fnName string, body ast.Node, want func(id *ast.Ident) bool) []writeSite {
	var out []writeSite
	var lits []*ast.FuncLit
	var visit func(n ast.Node) bool
	cur := func() *ast.FuncLit {
		if len(lits) == 0 {
			return nil
		}
		return lits[len(lits)-1]
	}
	visit = func(n ast.Node) bool {
		switch x := n.(type) {
		case *ast.FuncLit:
			lits = append(lits, x)
			ast.Inspect(x.Body, visit)
			lits = lits[:len(lits)-1]
			return false
		case *ast.AssignStmt:
			for _, l := range x.Lhs {
				if id := rootIdentOf(l); id != nil && id.Name != "_" && want(id) {
					if x.Tok == token.DEFINE {
						if _, plain := ast.Unparen(l).(*ast.Ident); plain {
							continue // := declares a new local
						}
					}
					out = append(out, writeSite{id.Name, x.Pos(), "assignment to " + types.ExprString(l), cur(), fnName})
				}
			}
		case *ast.IncDecStmt:
			if id := rootIdentOf(x.X); id != nil && want(id) {
				out = append(out, writeSite{id.Name, x.Pos(), "inc/dec", cur(), fnName})
			}
		case *ast.CallExpr:
			if fid, ok := x.Fun.(*ast.Ident); ok && (fid.Name == "delete" || fid.Name == "clear") && len(x.Args) > 0 {
				if id := rootIdentOf(x.Args[0]); id != nil && want(id) {
					out = append(out, writeSite{id.Name, x.Pos(), fid.Name, cur(), fnName})
				}
			}
		case *ast.UnaryExpr:
			if x.Op == token.AND {
				if id := rootIdentOf(x.X); id != nil && want(id) {
					if _, isLit := ast.Unparen(x.X).(*ast.CompositeLit); !isLit {
						out = append(out, writeSite{id.Name, x.Pos(), "address taken (&" + types.ExprString(x.X) + ")", cur(), fnName})
					}
				}
			}
		}
		return true
	}
	ast.Inspect(body, visit)
	return out
}

// declaredIn: identifiers declared (:=, var, params, range) inside node.
func declaredIn(n ast.Node) map[string]bool {
	d := map[string]bool{}
	ast.Inspect(n, func(m ast.Node) bool {
		switch x := m.(type) {
		case *ast.AssignStmt:
			if x.Tok == token.DEFINE {
				for _, l := range x.Lhs {
					if id, ok := l.(*ast.Ident); ok {
						d[id.Name] = true
					}
				}
			}
		case *ast.ValueSpec:
			for _, id := range x.Names {
				d[id.Name] = true
			}
		case *ast.RangeStmt:
			if x.Tok == token.DEFINE {
				if id, ok := x.Key.(*ast.Ident); ok {
					d[id.Name] = true
				}
				if id, ok := x.Value.(*ast.Ident); ok {
					d[id.Name] = true
				}
			}
		case *ast.FuncType:
			if x.Params != nil {
				for _, f := range x.Params.List {
					for _, id := range f.Names {
						d[id.Name] = true
					}
				}
			}
			if x.Results != nil {
				for _, f := range x.Results.List {
					for _, id := range f.Names {
						d[id.Name] = true
					}
				}
			}
		case *ast.TypeSwitchStmt:
			if as, ok := x.Assign.(*ast.AssignStmt); ok {
				if id, ok := as.Lhs[0].(*ast.Ident); ok {
					d[id.Name] = true
				}
			}
		}
		return true
	})
	return d
}

func checkC17(c *Ctx) {
	r := c.R
	r.Explain = "Static race-freedom argument by shared-state inventory over the emitted Go code (reconstructed from the generator's syntax tree; the server runtime is type-checked, holed units are parsed in every variant with two services/methods). R17a every package-level variable of every emitted unit is read-only after initialisation, or written only inside the function literal handed to (*sync.Once).Do and read after that Do call. R17b client struct fields are stored only by the constructor and by option closures; RPC methods neither store to the receiver nor mutate (directly or through an alias) a map field of the receiver; serverConfiguration is written only by options. R17g the closure returned by an option constructor does not store a map or slice built once in the constructor into the per-call or per-client state (options are reusable values). R17c per-request state is local: no function literal that serves a request (the BindingMiddleware and genericHandler handlers) assigns, resets or writes (effect summaries) a variable captured from the enclosing registration-time scope. R17d route registration contains no closure over the per-method variables it reassigns. R17e the header/parameter slices shared by all requests of a route are never stored through. Not decided: linearizability of results, races inside user handlers/hooks and inside libraries (protovalidate.Validator, http.Client, ServeMux, math/rand are documented safe for concurrent use)."
	r.Trusted = []string{"sync.Once.Do happens-before its return for every caller", "protovalidate.Validator, http.Client, http.ServeMux, math/rand top-level functions are safe for concurrent use"}
	r.Rule("R17a", "package-level variables of emitted units are read-only or once-initialised", 8)
	r.Rule("R17b", "struct state: client fields and server configuration are written only during construction/options", 6)
	r.Rule("R17c", "request-serving closures do not write captured (registration-time) variables", 2)
	r.Rule("R17d", "route registration has no closure over reassigned per-method variables", 2)
	r.Rule("R17e", "shared per-route slices are never stored through", 3)

	// ---------------- all Go units, parsed, all variants
	type unitFile struct {
		root RootInfo
		u    *Unit
		f    *ast.File
		fset *token.FileSet
		vid  int
	}
	var files []unitFile
	for _, ri := range c.Roots() {
		if (ri.Pkg != pkgHTTP && ri.Pkg != pkgClient) || !strings.HasSuffix(ri.Suffix, ".go") {
			continue
		}
		ex := c.ExploreT(ri.Fn, 4000)
		for _, v := range ex.Variants {
			for _, u := range v.Units {
				fset, f, err := ParseUnit(u)
				if err != nil {
					continue // syntax is C13's obligation
				}
				files = append(files, unitFile{ri, u, f, fset, v.ID})
			}
		}
	}
	r.Count("go_unit_variants_parsed", len(files))
	genPos := func(uf unitFile, p token.Pos) string {
		line := uf.fset.Position(p).Line
		if line >= 1 && line <= len(uf.u.Lines) {
			return c.P.Pos(uf.u.Lines[line-1].Pos)
		}
		return ""
	}

	// ---- R17k emitted codecs do not write to the message they encode
	r.Rule("R17k", "an emitted MarshalJSON never stores into its receiver: encoding a message that several calls share (a request template, a cached response) must not modify it", 1)
	{
		nEnc := 0
		reported := map[string]bool{}
		for _, uf := range files {
			for _, d := range uf.f.Decls {
				fd, ok := d.(*ast.FuncDecl)
				if !ok || fd.Body == nil || fd.Recv == nil || fd.Name.Name != "MarshalJSON" || len(fd.Recv.List) == 0 || len(fd.Recv.List[0].Names) == 0 {
					continue
				}
				nEnc++
				recv := fd.Recv.List[0].Names[0].Name
				ast.Inspect(fd.Body, func(nd ast.Node) bool {
					var lhs []ast.Expr
					switch x := nd.(type) {
					case *ast.AssignStmt:
						if x.Tok == token.DEFINE {
							return true
						}
						lhs = x.Lhs
					case *ast.IncDecStmt:
						lhs = []ast.Expr{x.X}
					default:
						return true
					}
					for _, l := range lhs {
						if _, isIdent := ast.Unparen(l).(*ast.Ident); isIdent {
							continue
						}
						if root := rootIdentOf(l); root != nil && root.Name == recv {
							k := fmt.Sprintf("*%s MarshalJSON stores into its receiver", uf.root.Suffix)
							if !reported[k] {
								reported[k] = true
								r.Bad("R17k", k, genPos(uf, nd.Pos()), "the emitted MarshalJSON of "+holeFree(types.ExprString(fd.Recv.List[0].Type))+" executes `"+holeFree(types.ExprString(l))+" = …` on the message it encodes: two calls that encode the same message at the same time race on that field — one call's JSON loses it, and the shared message can lose it for good", nil)
							}
						}
					}
					return true
				})
			}
		}
		r.OKd("R17k", "emitted MarshalJSON methods inspected for stores into the receiver", "", map[string]any{"encoders": nEnc, "with_stores": len(reported)})
	}

	// ---- R17i what a request is answered with does not depend on Go's randomised map iteration order
	r.Rule("R17i", "every range over a Go map in the emitted server runtime has an order-insensitive body: the answer to a request (violation lists, headers) is a function of the request, not of the map's per-iteration random order", 1)
	if ep, err := c.ServerRuntime(); err != nil {
		r.Unres("R17i", "emitted server runtime", "", err.Error())
	} else {
		nRanges := 0
		for _, name := range sortedKeys(ep.Funcs) {
			fd := ep.Funcs[name]
			if fd.Body == nil {
				continue
			}
			ast.Inspect(fd.Body, func(nd ast.Node) bool {
				rs, ok := nd.(*ast.RangeStmt)
				if !ok {
					return true
				}
				tv, ok := ep.Info.Types[rs.X]
				if !ok || tv.Type == nil {
					return true
				}
				if _, isMap := tv.Type.Underlying().(*types.Map); !isMap {
					return true
				}
				nRanges++
				ok2, idiom, why := rangeBodyVerdictInfo(ep.Info, fd, rs)
				r.CheckD(ok2, "R17i", fmt.Sprintf("emitted %s: range over the map %s", name, ep.Text(rs.X)), ep.GenPos(rs.Pos()),
					"the emitted "+name+" iterates a Go map and its result depends on the iteration order ("+why+"): Go randomises that order per iteration, so the same request is answered differently from one call to the next (for validateHeaders: the order of the violations in the 400 body), and a call's result is not equal to the result of issuing that call alone", map[string]any{"idiom": idiom})
				return true
			})
		}
		r.OKd("R17i", "map ranges of the emitted server runtime inventoried", "", map[string]any{"ranges_over_maps": nRanges})
	}

	// ---- R17h pooled memory does not outlive its return to the pool
	r.Rule("R17h", "no emitted function returns (or stores) memory derived from a sync.Pool value that the same function hands back to the pool: the next Get of a concurrent call overwrites it while it is still in use", 1)
	{
		nFuncs, nPools := 0, 0
		reported := map[string]bool{}
		for _, uf := range files {
			pools := map[string]bool{}
			for _, d := range uf.f.Decls {
				gd, ok := d.(*ast.GenDecl)
				if !ok || gd.Tok != token.VAR {
					continue
				}
				for _, sp := range gd.Specs {
					vs := sp.(*ast.ValueSpec)
					isPool := vs.Type != nil && strings.HasSuffix(types.ExprString(vs.Type), "sync.Pool")
					for _, v := range vs.Values {
						if strings.Contains(types.ExprString(v), "sync.Pool{") || strings.HasPrefix(strings.TrimPrefix(types.ExprString(v), "&"), "sync.Pool") {
							isPool = true
						}
					}
					if isPool {
						for _, nm := range vs.Names {
							pools[nm.Name] = true
						}
					}
				}
			}
			for _, d := range uf.f.Decls {
				fd, ok := d.(*ast.FuncDecl)
				if !ok || fd.Body == nil {
					continue
				}
				nFuncs++
				if len(pools) == 0 {
					continue
				}
				// values taken from a pool and handed back in this function
				got := map[string]bool{}
				put := map[string]bool{}
				ast.Inspect(fd.Body, func(nd ast.Node) bool {
					switch x := nd.(type) {
					case *ast.AssignStmt:
						for i, rhs := range x.Rhs {
							e := ast.Unparen(rhs)
							if ta, ok := e.(*ast.TypeAssertExpr); ok {
								e = ast.Unparen(ta.X)
							}
							if call, ok := e.(*ast.CallExpr); ok {
								if sel, ok := call.Fun.(*ast.SelectorExpr); ok && sel.Sel.Name == "Get" {
									if id, ok := ast.Unparen(sel.X).(*ast.Ident); ok && pools[id.Name] && i < len(x.Lhs) {
										if l, ok := x.Lhs[i].(*ast.Ident); ok {
											got[l.Name] = true
										}
									}
								}
							}
						}
					case *ast.CallExpr:
						if sel, ok := x.Fun.(*ast.SelectorExpr); ok && sel.Sel.Name == "Put" && len(x.Args) == 1 {
							if id, ok := ast.Unparen(sel.X).(*ast.Ident); ok && pools[id.Name] {
								if a := rootIdentOf(x.Args[0]); a != nil {
									put[a.Name] = true
								}
							}
						}
					}
					return true
				})
				tainted := map[string]bool{}
				for v := range got {
					if put[v] {
						tainted[v] = true
					}
				}
				if len(tainted) == 0 {
					continue
				}
				nPools++
				mentions := func(e ast.Node) bool {
					hit := false
					ast.Inspect(e, func(m ast.Node) bool {
						if id, ok := m.(*ast.Ident); ok && tainted[id.Name] {
							hit = true
						}
						return !hit
					})
					return hit
				}
				for round := 0; round < 4; round++ {
					ast.Inspect(fd.Body, func(nd ast.Node) bool {
						if as, ok := nd.(*ast.AssignStmt); ok {
							src := false
							for _, rhs := range as.Rhs {
								if mentions(rhs) {
									src = true
								}
							}
							if src {
								for _, l := range as.Lhs {
									if id, ok := l.(*ast.Ident); ok && id.Name != "_" && id.Name != "err" {
										tainted[id.Name] = true
									}
								}
							}
						}
						return true
					})
				}
				ast.Inspect(fd.Body, func(nd ast.Node) bool {
					ret, ok := nd.(*ast.ReturnStmt)
					if !ok {
						return true
					}
					for _, res := range ret.Results {
						if call, isCall := ast.Unparen(res).(*ast.CallExpr); isCall {
							// a copy made by the callee (append([]byte(nil), b...), bytes.Clone, string(b)) is not the pooled memory
							fn := types.ExprString(call.Fun)
							if fn == "bytes.Clone" || fn == "slices.Clone" || fn == "string" || (fn == "append" && len(call.Args) > 0 && !mentions(call.Args[0])) {
								continue
							}
						}
						if mentions(res) {
							k := fmt.Sprintf("*%s %s returns pooled memory", uf.root.Suffix, holeFree(fd.Name.Name))
							if !reported[k] {
								reported[k] = true
								r.Bad("R17h", k, genPos(uf, ret.Pos()), "the emitted "+holeFree(fd.Name.Name)+" takes a buffer from a package-level sync.Pool, hands it back (Put) when it returns, and returns "+types.ExprString(res)+", which still aliases that buffer: a concurrent call that Gets the same buffer overwrites the bytes while the first call is still sending them — one call transmits another call's request", nil)
							}
						}
					}
					return true
				})
			}
		}
		r.OKd("R17h", "emitted Go functions inspected for pooled memory that escapes its Put", "", map[string]any{"functions": nFuncs, "functions_with_get_and_put": nPools, "escapes": len(reported)})
	}

	// ---- R17a
	seenVar := map[string]bool{}
	for _, uf := range files {
		pkgVars := map[string]token.Pos{}
		for _, d := range uf.f.Decls {
			if gd, ok := d.(*ast.GenDecl); ok && gd.Tok == token.VAR {
				for _, sp := range gd.Specs {
					for _, n := range sp.(*ast.ValueSpec).Names {
						if n.Name != "_" {
							pkgVars[n.Name] = n.Pos()
						}
					}
				}
			}
		}
		if len(pkgVars) == 0 {
			continue
		}
		type use struct {
			writes []writeSite
		}
		uses := map[string]*use{}
		for _, d := range uf.f.Decls {
			fd, ok := d.(*ast.FuncDecl)
			if !ok || fd.Body == nil {
				continue
			}
			local := declaredIn(fd)
			ws := writesIn(fd.Name.Name, fd.Body, func(id *ast.Ident) bool {
				_, isPkg := pkgVars[id.Name]
				return isPkg && !local[id.Name]
			})
			for _, w := range ws {
				if uses[w.Name] == nil {
					uses[w.Name] = &use{}
				}
				uses[w.Name].writes = append(uses[w.Name].writes, w)
			}
		}
		// a package-level value whose METHODS mutate it is shared mutable state even if the variable is never assigned:
		// *rand.Rand, bytes.Buffer, strings.Builder … are not safe for concurrent use (the top-level math/rand
		// functions are)
		for _, d := range uf.f.Decls {
			gd, ok := d.(*ast.GenDecl)
			if !ok || gd.Tok != token.VAR {
				continue
			}
			for _, sp := range gd.Specs {
				vs := sp.(*ast.ValueSpec)
				for i, nm := range vs.Names {
					var init ast.Expr
					if i < len(vs.Values) {
						init = vs.Values[i]
					}
					why := ""
					if call, ok := init.(*ast.CallExpr); ok {
						switch types.ExprString(call.Fun) {
						case "rand.New", "bytes.NewBuffer", "bytes.NewBufferString", "bufio.NewWriter", "bufio.NewReader", "sha256.New", "md5.New", "json.NewEncoder", "json.NewDecoder":
							why = types.ExprString(call.Fun) + "(…)"
						}
					}
					if vs.Type != nil {
						switch types.ExprString(vs.Type) {
						case "bytes.Buffer", "strings.Builder", "rand.Rand":
							why = "a " + types.ExprString(vs.Type)
						}
					}
					if why != "" {
						k := fmt.Sprintf("*%s var %s is a shared value that is not safe for concurrent use", uf.root.Suffix, holeFree(nm.Name))
						if !seenVar[k] {
							seenVar[k] = true
							r.Bad("R17a", k, genPos(uf, nm.Pos()), "the generated package keeps "+why+" in a package-level variable: its methods mutate it without synchronisation, so two requests served at the same time race on it (for *rand.Rand: corrupted state, index-out-of-range panics)", nil)
						}
					}
				}
			}
		}
		// a package-level sync.Map is a cache shared by every request (and every route) of the process: what it hands back
		// must be a function of the key alone, otherwise whichever call filled the entry first decides the answer of the others
		for _, d := range uf.f.Decls {
			gd, ok := d.(*ast.GenDecl)
			if !ok || gd.Tok != token.VAR {
				continue
			}
			for _, sp := range gd.Specs {
				vs := sp.(*ast.ValueSpec)
				isSyncMap := vs.Type != nil && strings.TrimPrefix(types.ExprString(vs.Type), "*") == "sync.Map"
				for _, v := range vs.Values {
					if strings.Contains(types.ExprString(v), "sync.Map{}") {
						isSyncMap = true
					}
				}
				if !isSyncMap {
					continue
				}
				for _, nm := range vs.Names {
					for _, d2 := range uf.f.Decls {
						fd, ok := d2.(*ast.FuncDecl)
						if !ok || fd.Body == nil {
							continue
						}
						for _, bad := range cacheValueBeyondKey(fd, nm.Name) {
							k := fmt.Sprintf("*%s var %s: cached value is a function of the key (%s)", uf.root.Suffix, holeFree(nm.Name), fd.Name.Name)
							if !seenVar[k] {
								seenVar[k] = true
								r.Bad("R17a", k, genPos(uf, bad.pos), "the generated package caches a value in the package-level sync.Map "+nm.Name+" under a key built from "+bad.keyDeps+", but the value also depends on "+bad.extra+": whichever request fills the entry first fixes the value for every other route or request that maps to the same key, so a call's result depends on which calls came before it", nil)
							}
						}
					}
				}
			}
		}
		for name, pos := range pkgVars {
			key := fmt.Sprintf("*%s var %s", uf.root.Suffix, holeFree(name))
			u := uses[name]
			if u == nil {
				if !seenVar[key] {
					seenVar[key] = true
					r.OKd("R17a", key, genPos(uf, pos), map[string]any{"class": "read-only after initialisation"})
				}
				continue
			}
			// every write must be inside the literal passed to <x>Once.Do, in a function that reads the var only after that call
			okAll := true
			why := ""
			for _, w := range u.writes {
				if w.In == nil {
					okAll = false
					why = fmt.Sprintf("%s in %s (%s)", w.How, w.Fn, genPos(uf, w.Pos))
					break
				}
				inOnce := false
				for _, d := range uf.f.Decls {
					fd, ok := d.(*ast.FuncDecl)
					if !ok || fd.Body == nil {
						continue
					}
					ast.Inspect(fd.Body, func(n ast.Node) bool {
						if call, ok := n.(*ast.CallExpr); ok && strings.HasSuffix(types.ExprString(call.Fun), "Once.Do") && len(call.Args) == 1 && call.Args[0] == ast.Expr(w.In) {
							inOnce = true
						}
						return true
					})
				}
				if !inOnce {
					okAll = false
					why = fmt.Sprintf("%s in a function literal of %s that is not the argument of sync.Once.Do (%s)", w.How, w.Fn, genPos(uf, w.Pos))
				}
			}
			if okAll {
				// inside the initialising function every read comes after the Do call (the only happens-before edge)
				for _, d := range uf.f.Decls {
					fd, ok := d.(*ast.FuncDecl)
					if !ok || fd.Body == nil || fd.Name.Name != u.writes[0].Fn {
						continue
					}
					var doPos, doEnd token.Pos
					ast.Inspect(fd.Body, func(n ast.Node) bool {
						if call, ok := n.(*ast.CallExpr); ok && strings.HasSuffix(types.ExprString(call.Fun), "Once.Do") && doPos == token.NoPos {
							doPos, doEnd = call.Pos(), call.End()
						}
						return true
					})
					local := declaredIn(fd)
					ast.Inspect(fd.Body, func(n ast.Node) bool {
						if id, ok := n.(*ast.Ident); ok && id.Name == name && !local[name] && doPos != token.NoPos && id.Pos() < doPos {
							okAll = false
							why = fmt.Sprintf("read in %s before the sync.Once.Do call (%s): an unsynchronised fast path races with the initialising write", fd.Name.Name, genPos(uf, id.Pos()))
						}
						return true
					})
					_ = doEnd
				}
			}
			if okAll {
				// reads outside the initialising function?
				initFn := u.writes[0].Fn
				for _, d := range uf.f.Decls {
					fd, ok := d.(*ast.FuncDecl)
					if !ok || fd.Body == nil || fd.Name.Name == initFn {
						continue
					}
					local := declaredIn(fd)
					ast.Inspect(fd.Body, func(n ast.Node) bool {
						if id, ok := n.(*ast.Ident); ok && id.Name == name && !local[name] {
							okAll = false
							why = fmt.Sprintf("read in %s without passing the sync.Once (%s)", fd.Name.Name, genPos(uf, id.Pos()))
						}
						return true
					})
				}
			}
			if okAll && !seenVar[key] {
				seenVar[key] = true
				r.OKd("R17a", key, genPos(uf, pos), map[string]any{"class": "initialised once under sync.Once"})
			} else if !okAll {
				r.Bad("R17a", key, genPos(uf, pos), "package-level variable of the generated package is written while requests are being served: "+why+" — concurrent requests race on it and one request's data can leak into another", nil)
			}
		}
	}

	// ---- R17g option constructors: the returned closure may run once per call (options are reusable values);
	// a map/slice built in the constructor and stored by the closure into the per-call/per-client state is
	// shared, mutable, by every call the option is used for
	{
		r.Rule("R17g", "option closures do not store a map or slice that was built once in the option constructor into per-call state", 1)
		seen := map[string]bool{}
		nClosures := 0
		for _, uf := range files {
			for _, d := range uf.f.Decls {
				fd, ok := d.(*ast.FuncDecl)
				if !ok || fd.Body == nil {
					continue
				}
				// reference-typed locals created in the constructor body, outside any function literal
				built := map[string]bool{}
				var lits []*ast.FuncLit
				ast.Inspect(fd.Body, func(n ast.Node) bool {
					if fl, ok := n.(*ast.FuncLit); ok {
						lits = append(lits, fl)
						return false
					}
					if as, ok := n.(*ast.AssignStmt); ok && as.Tok == token.DEFINE && len(as.Lhs) == len(as.Rhs) {
						for i, rhs := range as.Rhs {
							id, ok := as.Lhs[i].(*ast.Ident)
							if !ok {
								continue
							}
							switch x := ast.Unparen(rhs).(type) {
							case *ast.CompositeLit:
								switch x.Type.(type) {
								case *ast.MapType, *ast.ArrayType:
									built[id.Name] = true
								}
							case *ast.CallExpr:
								if f, ok := x.Fun.(*ast.Ident); ok && f.Name == "make" {
									built[id.Name] = true
								}
							}
						}
					}
					return true
				})
				// only constructors: the function returns one of its literals
				returnsLit := false
				ast.Inspect(fd.Body, func(n ast.Node) bool {
					if ret, ok := n.(*ast.ReturnStmt); ok {
						for _, e := range ret.Results {
							if _, ok := ast.Unparen(e).(*ast.FuncLit); ok {
								returnsLit = true
							}
						}
					}
					return true
				})
				if !returnsLit {
					continue
				}
				for _, fl := range lits {
					nClosures++
					shadow := map[string]bool{}
					for _, p := range fl.Type.Params.List {
						for _, n := range p.Names {
							shadow[n.Name] = true
						}
					}
					ast.Inspect(fl.Body, func(n ast.Node) bool {
						as, ok := n.(*ast.AssignStmt)
						if !ok || len(as.Lhs) != len(as.Rhs) {
							return true
						}
						for i, rhs := range as.Rhs {
							id, ok := ast.Unparen(rhs).(*ast.Ident)
							if !ok || !built[id.Name] || shadow[id.Name] {
								continue
							}
							if sel, ok := as.Lhs[i].(*ast.SelectorExpr); ok {
								k := fmt.Sprintf("*%s %s: closure stores constructor-built %s into %s", uf.root.Suffix, holeFree(fd.Name.Name), id.Name, holeFree(types.ExprString(sel)))
								if !seen[k] {
									seen[k] = true
									r.Bad("R17g", k, genPos(uf, as.Pos()), fmt.Sprintf("the option constructor builds %s once and the closure it returns stores that same map/slice into %s: every call made with the same option value (and every later option of that call, which writes through it) shares one mutable map — concurrent calls race on it and one call's headers leak into another", id.Name, holeFree(types.ExprString(sel))), nil)
								}
							}
						}
						return true
					})
				}
			}
		}
		r.OKd("R17g", "option constructors of the emitted Go units", "", map[string]any{"closures": nClosures, "violations": len(seen)})
		r.Count("option closures inspected", nClosures)
	}

	// ---- R17b client struct + server configuration
	nClient := 0
	for _, uf := range files {
		if uf.root.Suffix != "_client.pb.go" {
			continue
		}
		// map/slice-typed fields of the structs declared in the unit
		refFields := map[string]bool{}
		for _, d := range uf.f.Decls {
			if gd, ok := d.(*ast.GenDecl); ok && gd.Tok == token.TYPE {
				for _, sp := range gd.Specs {
					if st, ok := sp.(*ast.TypeSpec).Type.(*ast.StructType); ok {
						for _, fl := range st.Fields.List {
							switch fl.Type.(type) {
							case *ast.MapType, *ast.ArrayType:
								for _, nm := range fl.Names {
									refFields[nm.Name] = true
								}
							}
						}
					}
				}
			}
		}
		for _, d := range uf.f.Decls {
			fd, ok := d.(*ast.FuncDecl)
			if !ok || fd.Recv == nil || fd.Body == nil || len(fd.Recv.List[0].Names) == 0 {
				continue
			}
			recv := fd.Recv.List[0].Names[0].Name
			// aliases of receiver fields (x := c.field) — only maps/slices matter
			alias := map[string]string{}
			ast.Inspect(fd.Body, func(n ast.Node) bool {
				if as, ok := n.(*ast.AssignStmt); ok && len(as.Lhs) == len(as.Rhs) {
					for i, rh := range as.Rhs {
						if sel, ok := ast.Unparen(rh).(*ast.SelectorExpr); ok {
							if id, ok := ast.Unparen(sel.X).(*ast.Ident); ok && id.Name == recv {
								if l, ok := as.Lhs[i].(*ast.Ident); ok {
									alias[l.Name] = recv + "." + sel.Sel.Name
								}
							}
						}
					}
				}
				return true
			})
			ws := writesIn(fd.Name.Name, fd.Body, func(id *ast.Ident) bool { return id.Name == recv || alias[id.Name] != "" })
			var bad []string
			for _, w := range ws {
				// re-binding the alias variable itself (x = other) is harmless; stores THROUGH it are not
				if alias[w.Name] != "" && w.How == "assignment to "+w.Name {
					continue
				}
				tgt := w.How
				if a := alias[w.Name]; a != "" {
					tgt += " (alias of " + a + ")"
				}
				bad = append(bad, tgt)
			}
			// a map/slice field of the client handed to per-call state (a composite literal field, a store into
			// another struct) becomes writable through that state: option closures then write into the client's map
			ast.Inspect(fd.Body, func(n ast.Node) bool {
				esc := func(e ast.Expr, how string) {
					if sel, ok := ast.Unparen(e).(*ast.SelectorExpr); ok {
						if id, ok := ast.Unparen(sel.X).(*ast.Ident); ok && id.Name == recv && refFields[sel.Sel.Name] {
							bad = append(bad, fmt.Sprintf("%s.%s (a map/slice of the client) is %s: writes through that value reach the client's shared state", recv, sel.Sel.Name, how))
						}
					}
				}
				switch x := n.(type) {
				case *ast.KeyValueExpr:
					esc(x.Value, "stored into a struct literal ("+holeFree(types.ExprString(x.Key))+")")
				case *ast.AssignStmt:
					if len(x.Lhs) == len(x.Rhs) {
						for i, rh := range x.Rhs {
							switch ast.Unparen(x.Lhs[i]).(type) {
							case *ast.SelectorExpr, *ast.IndexExpr:
								esc(rh, "stored into "+holeFree(types.ExprString(x.Lhs[i])))
							}
						}
					}
				}
				return true
			})
			nClient++
			key := fmt.Sprintf("go-client method %s does not write client state", holeFree(fd.Name.Name))
			r.CheckD(len(bad) == 0, "R17b", key, genPos(uf, fd.Pos()),
				"an RPC/helper method of the generated client stores into the client struct or mutates one of its maps (possibly through an alias): per-call options leak into later calls and concurrent calls race: "+strings.Join(bad, "; "), nil)
		}
	}
	r.Count("client_methods_checked", nClient)
	ep, err := c.ServerRuntime()
	if err != nil {
		r.Unres("R17c", "emitted server runtime", "", err.Error())
		return
	}
	// serverConfiguration fields: written only inside ServerOption closures / getDefaultConfiguration
	for name, fd := range ep.Funcs {
		if fd.Body == nil {
			continue
		}
		ws := writesIn(name, fd.Body, func(id *ast.Ident) bool {
			o := ep.Info.ObjectOf(id)
			return o != nil && o.Type() != nil && typeIsNamed(o.Type(), ep.Pkg.Path(), "serverConfiguration")
		})
		for _, w := range ws {
			allowed := w.In != nil && (strings.HasPrefix(name, "With"))
			r.Check(allowed, "R17b", fmt.Sprintf("serverConfiguration written in %s", name), ep.GenPos(w.Pos),
				"the server configuration is written outside a ServerOption closure: configuration is shared by every route registered with it")
		}
	}
	r.OK("R17b", "serverConfiguration writers inventoried", "")

	// ---- R17c request-serving closures
	eff := NewEffects(ep)
	for _, fname := range []string{"BindingMiddleware", "genericHandler"} {
		fd := ep.Funcs[fname]
		if fd == nil {
			r.Unres("R17c", fname, "", "not emitted")
			continue
		}
		var lit *ast.FuncLit
		ast.Inspect(fd.Body, func(n ast.Node) bool {
			if l, ok := n.(*ast.FuncLit); ok && lit == nil {
				lit = l
				return false
			}
			return true
		})
		if lit == nil {
			r.Unres("R17c", fname+" handler literal", ep.GenPos(fd.Pos()), "no function literal")
			continue
		}
		inside := func(o types.Object) bool { return o != nil && o.Pos() >= lit.Pos() && o.Pos() <= lit.End() }
		var bad []string
		// (1) syntactic writes to captured variables
		for _, w := range writesIn(fname, lit.Body, func(id *ast.Ident) bool {
			o := ep.Info.ObjectOf(id)
			if o == nil {
				return false
			}
			if _, isVar := o.(*types.Var); !isVar {
				return false
			}
			return !inside(o)
		}) {
			bad = append(bad, fmt.Sprintf("%s at %s", w.How, ep.GenPos(w.Pos)))
		}
		// (2) effect writes/resets on captured objects
		captured := map[types.Object]bool{}
		ast.Inspect(lit.Body, func(n ast.Node) bool {
			if id, ok := n.(*ast.Ident); ok {
				if o, ok := ep.Info.Uses[id].(*types.Var); ok && !inside(o) && !o.IsField() && o.Pkg() == ep.Pkg {
					captured[o] = true
				}
			}
			return true
		})
		for o := range captured {
			d := eff.derived(lit.Body, o)
			eff.walkCalls(lit.Body, func(call *ast.CallExpr) {
				for _, ev := range eff.callEvents(call, d) {
					if ev.Kind == EffWrite || ev.Kind == EffReset {
						bad = append(bad, fmt.Sprintf("%s of captured %s via %s at %s", ev.Kind, o.Name(), ev.Via, ep.GenPos(ev.Pos)))
					}
				}
			})
		}
		r.CheckD(len(bad) == 0, "R17c", fname+": the per-request closure writes only its own locals", ep.GenPos(lit.Pos()),
			"state created once per route (when the handler is registered) is written by every request: "+strings.Join(bad, "; ")+" — requests to the same route see each other's fields and race", map[string]any{"captured": len(captured)})
	}

	c17RouteOwnHeaders(c, "R17f")
	// ---- R17d registration
	nReg := 0
	regBad, regBadPos := "", ""
	assignCountMax := map[string]int{}
	for _, uf := range files {
		if uf.root.Suffix != "_http.pb.go" {
			continue
		}
		for _, d := range uf.f.Decls {
			fd, ok := d.(*ast.FuncDecl)
			if !ok || fd.Body == nil || !strings.HasPrefix(fd.Name.Name, "Register") {
				continue
			}
			nReg++
			// variables assigned more than once
			assignCount := map[string]int{}
			ast.Inspect(fd.Body, func(n ast.Node) bool {
				if as, ok := n.(*ast.AssignStmt); ok {
					for _, l := range as.Lhs {
						if id, ok := l.(*ast.Ident); ok {
							assignCount[id.Name]++
						}
					}
				}
				return true
			})
			bad := ""
			ast.Inspect(fd.Body, func(n ast.Node) bool {
				if lit, ok := n.(*ast.FuncLit); ok {
					local := declaredIn(lit)
					ast.Inspect(lit.Body, func(m ast.Node) bool {
						if id, ok := m.(*ast.Ident); ok && assignCount[id.Name] > 1 && !local[id.Name] {
							bad = id.Name
						}
						return true
					})
				}
				return true
			})
			if bad != "" && regBad == "" {
				regBad = bad
				regBadPos = genPos(uf, fd.Pos())
			}
			if len(assignCountMax) < len(assignCount) {
				assignCountMax = assignCount
			}
		}
	}
	if nReg == 0 {
		r.Unres("R17d", "Register functions", "", "no Register<Service>Server function found in any _http.pb.go variant")
	} else {
		reassigned := 0
		for _, n := range assignCountMax {
			if n > 1 {
				reassigned++
			}
		}
		r.CheckD(regBad == "", "R17d", "Register functions: no closure over a variable reassigned per method (all variants, two methods)", regBadPos,
			"a closure created during route registration captures variable "+regBad+", which is reassigned for the next method: every route would use the last method's value",
			map[string]any{"register_functions_checked": nReg})
		r.Check(reassigned > 0, "R17d", "the two-method variant was explored (methodHeaders is reassigned there)", "", "no Register variant reassigns a variable: the unrolling no longer reaches the second method")
	}

	// ---- R17e shared slices
	for _, fname := range []string{"validateHeaders", "bindPathParams", "bindQueryParams"} {
		fd := ep.Funcs[fname]
		if fd == nil {
			r.Unres("R17e", fname, "", "not emitted")
			continue
		}
		shared := map[types.Object]bool{}
		for _, f := range fd.Type.Params.List {
			for _, n := range f.Names {
				if o := ep.Info.Defs[n]; o != nil {
					if _, isSlice := o.Type().Underlying().(*types.Slice); isSlice {
						shared[o] = true
					}
				}
			}
		}
		// a local bound to a shared slice (x := shared, x := shared[:n], x := append(shared, …) — which writes into the
		// shared backing array whenever it has spare capacity) denotes the same storage
		for round := 0; round < 3; round++ {
			ast.Inspect(fd.Body, func(n ast.Node) bool {
				as, ok := n.(*ast.AssignStmt)
				if !ok || len(as.Lhs) != len(as.Rhs) {
					return true
				}
				for i, l := range as.Lhs {
					id, ok := l.(*ast.Ident)
					if !ok {
						continue
					}
					rhs := ast.Unparen(as.Rhs[i])
					if sl, ok := rhs.(*ast.SliceExpr); ok {
						rhs = ast.Unparen(sl.X)
					}
					if call, ok := rhs.(*ast.CallExpr); ok {
						if fid, ok := call.Fun.(*ast.Ident); ok && fid.Name == "append" && len(call.Args) > 0 {
							rhs = ast.Unparen(call.Args[0])
						}
					}
					if rid, ok := rhs.(*ast.Ident); ok && shared[ep.Info.ObjectOf(rid)] {
						if o := ep.Info.ObjectOf(id); o != nil {
							if _, isSlice := o.Type().Underlying().(*types.Slice); isSlice {
								shared[o] = true
							}
						}
					}
				}
				return true
			})
		}
		// range variables over shared slices that are pointers also denote shared objects
		ast.Inspect(fd.Body, func(n ast.Node) bool {
			if rs, ok := n.(*ast.RangeStmt); ok {
				if id := rootIdentOf(rs.X); id != nil && shared[ep.Info.ObjectOf(id)] {
					if v, ok := rs.Value.(*ast.Ident); ok {
						if o := ep.Info.ObjectOf(v); o != nil {
							if _, isPtr := o.Type().Underlying().(*types.Pointer); isPtr {
								shared[o] = true
							}
						}
					}
				}
			}
			return true
		})
		var bad []string
		for _, w := range writesIn(fname, fd.Body, func(id *ast.Ident) bool { return shared[ep.Info.ObjectOf(id)] }) {
			if w.How == "assignment to "+w.Name {
				continue // rebinding the local name, not a store through it
			}
			bad = append(bad, w.How+" at "+ep.GenPos(w.Pos))
		}
		// append(shared…, v): with spare capacity (always for shared[:0], the filter-in-place idiom) the element is written
		// into the backing array every request of the route reads; a three-index slice shared[:n:n] forces a copy
		ast.Inspect(fd.Body, func(n ast.Node) bool {
			call, ok := n.(*ast.CallExpr)
			if !ok || len(call.Args) < 2 {
				return true
			}
			if fid, ok := call.Fun.(*ast.Ident); !ok || fid.Name != "append" {
				return true
			} else if _, isB := ep.Info.ObjectOf(fid).(*types.Builtin); !isB {
				return true
			}
			first := ast.Unparen(call.Args[0])
			if sl, ok := first.(*ast.SliceExpr); ok {
				if sl.Slice3 {
					return true
				}
				first = ast.Unparen(sl.X)
			}
			if id, ok := first.(*ast.Ident); ok && shared[ep.Info.ObjectOf(id)] {
				bad = append(bad, "append onto "+id.Name+" (shares the backing array of a per-route slice) at "+ep.GenPos(call.Pos()))
			}
			return true
		})
		r.Check(len(bad) == 0, "R17e", fname+" does not store through its shared slice parameters", ep.GenPos(fd.Pos()),
			"per-route configuration shared by all requests is mutated while serving a request: "+strings.Join(bad, "; "))
	}
}

// holeFree replaces hole placeholders by * so that obligation keys do not depend on hashes.
func holeFree(s string) string {
	return holeRe.ReplaceAllString(s, "*")
}

// c17RouteOwnHeaders: R17f — every route is registered with the header list of its own method.
func c17RouteOwnHeaders(c *Ctx, rid string) {
	r := c.R
	r.Rule(rid, "every route is registered with the header list of its own method (no value left over from the previous method)", 1)
	fn := c.P.Func(pkgHTTP, "Generator.generateService")
	if fn == nil {
		r.Unres(rid, "generateService", "", "not found")
		return
	}
	c.W.Concrete = true
	defer func() { c.W.Concrete = false }()
	in, out := cMessage("Req"), cMessage("Resp")
	hdr := func(n string) Val { return VList{Key: "h", Elems: []Val{cHeader(n, "string", "", true)}} }
	none := VList{Key: "h0", Elems: []Val{}}
	m1 := cMethod("CreateItem", in, out, map[string]Val{"@GetMethodHeaders": hdr("X-Request-ID")})
	m2 := cMethod("GetItem", in, out, map[string]Val{"@GetMethodHeaders": none})
	m3 := cMethod("Audit", in, out, map[string]Val{"@GetMethodHeaders": hdr("X-Admin-Token")})
	m4 := cMethod("Stats", in, out, map[string]Val{"@GetMethodHeaders": none})
	svc := cService("Items", m1, m2, m3, m4)
	svc.Fields["@GetServiceHeaders"] = none
	file := cstruct("File", map[string]Val{"GoPackageName": constStr("pkg"), "Services": VList{Key: "s", Elems: []Val{svc}}})
	run := c.W.NewRun(map[string]int{}, false)
	run.InlineAll, run.FollowSlices = true, true
	run.CallHook = c.cdescHook
	run.Units = []*Unit{{}}
	run.StartArgs(fn, map[string]Val{"file": file, "service": svc})
	pos := c.P.Pos(c.P.Decls[fn].Pos())
	if len(run.Used) > 0 || run.Aborted != "" {
		r.Undec(rid, "registration of a concrete four-method service", pos, fmt.Sprintf("open decisions %v aborted %q", usedKeys(run), run.Aborted))
		return
	}
	cur := ""
	assignRe := regexp.MustCompile(`^methodHeaders :?= get(\w+)Headers\(\)`)
	routeRe := regexp.MustCompile(`^(\w+)Handler := BindingMiddleware\[`)
	bad := []string{}
	nRoutes := 0
	for _, u := range run.Units {
		for _, l := range u.Lines {
			t := strings.TrimSpace(lineText(l.Segs))
			if m := assignRe.FindStringSubmatch(t); m != nil {
				cur = m[1]
			}
			if m := routeRe.FindStringSubmatch(t); m != nil {
				nRoutes++
				if !strings.EqualFold(m[1], cur) {
					bad = append(bad, fmt.Sprintf("route %s is registered with the headers of %s", m[1], cur))
				}
			}
		}
	}
	r.Check(len(bad) == 0 && nRoutes == 4, rid, "four-method service: each BindingMiddleware call follows the assignment of its own method's headers", pos,
		fmt.Sprintf("Register<Service>Server reuses one methodHeaders variable; for methods CreateItem(headers), GetItem(none), Audit(headers), Stats(none): %s (routes found: %d) — a route without method headers then enforces the required headers of the route registered before it", strings.Join(bad, "; "), nRoutes))
}

type cacheBad struct {
	pos             token.Pos
	keyDeps, extra string
}

// cacheValueBeyondKey: Store / LoadOrStore / Swap calls on the named package-level sync.Map inside fd whose value depends
// (through local definitions, to a fixpoint) on a parameter of fd that the key does not depend on. Name-based: the units are
// parsed, not type-checked.
func cacheValueBeyondKey(fd *ast.FuncDecl, mapName string) []cacheBad {
	params := map[string]bool{}
	if fd.Recv != nil {
		for _, f := range fd.Recv.List {
			for _, n := range f.Names {
				params[n.Name] = true
			}
		}
	}
	for _, f := range fd.Type.Params.List {
		for _, n := range f.Names {
			params[n.Name] = true
		}
	}
	// local name -> expressions it is defined from
	defs := map[string][]ast.Expr{}
	ast.Inspect(fd.Body, func(n ast.Node) bool {
		switch x := n.(type) {
		case *ast.AssignStmt:
			for i, l := range x.Lhs {
				id := rootIdentOf(l)
				if id == nil || params[id.Name] {
					continue
				}
				if len(x.Rhs) == len(x.Lhs) {
					defs[id.Name] = append(defs[id.Name], x.Rhs[i])
				} else if len(x.Rhs) == 1 {
					defs[id.Name] = append(defs[id.Name], x.Rhs[0])
				}
				if ix, ok := ast.Unparen(l).(*ast.IndexExpr); ok {
					defs[id.Name] = append(defs[id.Name], ix.Index)
				}
			}
		case *ast.RangeStmt:
			for _, kv := range []ast.Expr{x.Key, x.Value} {
				if id, ok := kv.(*ast.Ident); ok && id.Name != "_" {
					defs[id.Name] = append(defs[id.Name], x.X)
				}
			}
		case *ast.ValueSpec:
			for i, nm := range x.Names {
				if i < len(x.Values) {
					defs[nm.Name] = append(defs[nm.Name], x.Values[i])
				}
			}
		}
		return true
	})
	var deps func(e ast.Expr, seen map[string]bool, out map[string]bool)
	deps = func(e ast.Expr, seen map[string]bool, out map[string]bool) {
		ast.Inspect(e, func(n ast.Node) bool {
			if sel, ok := n.(*ast.SelectorExpr); ok {
				// only the operand of a selector can be a local or parameter
				deps(sel.X, seen, out)
				return false
			}
			if kv, ok := n.(*ast.KeyValueExpr); ok {
				deps(kv.Value, seen, out)
				return false
			}
			id, ok := n.(*ast.Ident)
			if !ok {
				return true
			}
			if params[id.Name] {
				out[id.Name] = true
				return true
			}
			if seen[id.Name] {
				return true
			}
			seen[id.Name] = true
			for _, d := range defs[id.Name] {
				deps(d, seen, out)
			}
			return true
		})
	}
	var out []cacheBad
	ast.Inspect(fd.Body, func(n ast.Node) bool {
		call, ok := n.(*ast.CallExpr)
		if !ok || len(call.Args) < 2 {
			return true
		}
		sel, ok := call.Fun.(*ast.SelectorExpr)
		if !ok {
			return true
		}
		if id, ok := ast.Unparen(sel.X).(*ast.Ident); !ok || id.Name != mapName {
			return true
		}
		switch sel.Sel.Name {
		case "Store", "LoadOrStore", "Swap":
		default:
			return true
		}
		kd, vd := map[string]bool{}, map[string]bool{}
		deps(call.Args[0], map[string]bool{}, kd)
		deps(call.Args[1], map[string]bool{}, vd)
		var extra []string
		for p := range vd {
			if !kd[p] {
				extra = append(extra, p)
			}
		}
		extra = sortedKeys(toSet(extra))
		if len(extra) > 0 {
			out = append(out, cacheBad{call.Pos(), "{" + strings.Join(sortedKeys(kd), ", ") + "}", strings.Join(extra, ", ")})
		}
		return true
	})
	return out
}
