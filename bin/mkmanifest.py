#!/usr/bin/env python3
"""Regenerates /verif/MANIFEST.json from the table below (kept in one place so the
manifest stays valid while checks are added)."""
import json

BASE_OFF = ("cd /repo && export PATH=/opt/veriftools/go1.26.8/bin:$PATH GOTOOLCHAIN=local GOFLAGS=-mod=mod GOPROXY=off GOSUMDB=off GOWORK=off && "
            "go test -json -vet=off -count=1 -timeout 25m ./...")

# id -> (technique, level text, level note, design ref)
CHECKS = {}
NA = {}

def claim(pid, technique, text, note, ref):
    CHECKS[pid] = (technique, text, note, ref)

exec(open('/verif/bin/manifest_table.py').read())

checks = []
for pid in sorted(CHECKS):
    technique, text, note, ref = CHECKS[pid]
    checks.append({
        "property_id": pid,
        "quick_cmd": f"bin/run {pid} quick",
        "thorough_cmd": f"bin/run {pid} thorough",
        "evidence_file": f"/verif/evidence/{pid}.json",
        "replay_cmd_template": "bin/run --replay {path}",
        "engine": "sebufcheck",
        "level_claimed": {"category": "other", "text": text, "design_ref": ref},
        "level_note": note,
        "technique": technique,
    })
ALL = [f"C{n:02d}" for n in range(1, 21)]
na = [{"property_id": p, "reason": NA.get(p, "check not built yet in this session; see DESIGN.md section 5 for the planned structural clauses")} for p in ALL if p not in CHECKS]
m = {
    "version": 1,
    "setup_cmd": "cd /verif && . bin/env.sh && cd checker && go build -o /verif/bin/sebufcheck . && go vet . && cd /verif && bin/selftest.sh",
    "hooks": {"guard": "verif", "enable": "none needed: static analysis reads /repo's source; no hook exists", "baseline_off_cmd": BASE_OFF, "source_commits": [], "add_only": True},
    "engines": [{"name": "sebufcheck", "path": "/verif/checker", "serves_properties": sorted(CHECKS), "kind_free_text": "Go static analyser (go/packages, go/types, go/ast, go/cfg, go/ssa from golang.org/x/tools v0.50.0): emission-grammar reconstruction of the generators' P(...) output, analysis of the reconstructed Go/TS text, call-graph / CFG / sibling rules on the generators"}],
    "checks": checks,
    "notes": NOTES,
    "not_applicable": na,
}
json.dump(m, open('/verif/MANIFEST.json', 'w'), indent=1)
print("claimed:", sorted(CHECKS), "not_applicable:", [x['property_id'] for x in na])
