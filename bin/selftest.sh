#!/bin/sh
# Minimal self-test run by setup_cmd: the binary exists and can load /repo.
set -e
HERE=$(cd "$(dirname "$0")/.." && pwd)
. "$HERE/bin/env.sh"
"$HERE/bin/sebufcheck" dump -show -1 generateConfigFile | grep -q "variants=1" || { echo "selftest: cannot reconstruct the config unit"; exit 1; }
echo selftest ok
