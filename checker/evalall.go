package main

// evalall.go — exhaustive enumeration of the free decisions of one function
// (used by E5: evaluate a validator or predicate for one field shape).

import (
	"go/types"
)

type Outcome struct {
	Dec      map[string]int
	Result   Val
	Aborted  string
	Units    []*Unit
	Used     []DecUse
	assigned []FieldAssign
}

// EvalAll walks fn under every assignment of the decisions that fix leaves
// open (depth-first over the decision tree, each full assignment once).
func (w *Walker) EvalAll(fn *types.Func, fix func(dk, c string) (int, bool), inlineAll bool, limit int) (outs []Outcome, problems []string, capped bool) {
	type node struct {
		dec  map[string]int
		last int // index in Used order of the last decision set by this node
	}
	stack := []node{{dec: map[string]int{}, last: -1}}
	probSeen := map[string]bool{}
	for len(stack) > 0 {
		n := stack[len(stack)-1]
		stack = stack[:len(stack)-1]
		if len(outs) >= limit {
			capped = true
			break
		}
		r := w.NewRun(copyDec(n.dec), false)
		r.Fix = fix
		r.InlineAll = inlineAll
		r.Start(fn)
		for _, p := range r.Problems {
			if !probSeen[p] {
				probSeen[p] = true
				problems = append(problems, p)
			}
		}
		outs = append(outs, Outcome{Dec: copyDec(n.dec), Result: r.Result, Aborted: r.Aborted, Units: r.Units, Used: r.Used, assigned: r.Assigned})
		for j := len(r.Used) - 1; j > n.last; j-- {
			u := r.Used[j]
			if _, set := n.dec[u.Key]; set {
				continue
			}
			for arm := u.Arity - 1; arm >= 1; arm-- {
				d := copyDec(n.dec)
				d[u.Key] = arm
				stack = append(stack, node{dec: d, last: j})
			}
		}
	}
	return
}

// accepted: a validator outcome is an acceptance when the function returned a
// nil error (or, for predicates, true).
func (o Outcome) NilError() bool {
	if o.Aborted != "" {
		return false
	}
	switch v := o.Result.(type) {
	case nil:
		return true
	case VNil:
		return true
	case VTuple:
		_, ok := v[len(v)-1].(VNil)
		return ok
	}
	return false
}
