package main

// cfgutil.go — G-cfg: within-function path rules on go/cfg graphs and the
// error-propagation idiom table.

import (
	"go/ast"
	"go/constant"
	"go/token"
	"go/types"
	"sort"

	"golang.org/x/tools/go/cfg"
)

func buildCFG(body *ast.BlockStmt) *cfg.CFG {
	return cfg.New(body, func(*ast.CallExpr) bool { return true })
}

func nodeContains(n ast.Node, pos token.Pos) bool { return n.Pos() <= pos && pos < n.End() }

// failureReturn: the return statement certainly returns a non-nil error
// (constructed error, or an identifier tested != nil by the enclosing if).
func failureReturn(info *types.Info, ret *ast.ReturnStmt, parents map[ast.Node]ast.Node) bool {
	if len(ret.Results) == 0 {
		return false
	}
	last := ast.Unparen(ret.Results[len(ret.Results)-1])
	switch x := last.(type) {
	case *ast.CallExpr:
		if c := Callee(info, x); c != nil && c.Pkg() != nil {
			if (c.Pkg().Path() == "fmt" && c.Name() == "Errorf") || (c.Pkg().Path() == "errors" && c.Name() == "New") {
				return true
			}
		}
	case *ast.UnaryExpr:
		if _, ok := x.X.(*ast.CompositeLit); ok && x.Op == token.AND {
			return true
		}
	case *ast.CompositeLit:
		return true
	case *ast.Ident:
		if x.Name == "nil" {
			return false
		}
		obj := info.ObjectOf(x)
		// enclosing if with cond `x != nil`
		for p := parents[ret]; p != nil; p = parents[p] {
			if is, ok := p.(*ast.IfStmt); ok {
				if be, ok := ast.Unparen(is.Cond).(*ast.BinaryExpr); ok && be.Op == token.NEQ {
					if id, ok := ast.Unparen(be.X).(*ast.Ident); ok && info.ObjectOf(id) == obj {
						if n, ok := ast.Unparen(be.Y).(*ast.Ident); ok && n.Name == "nil" {
							// the return must be in the THEN branch
							if nodeContains(is.Body, ret.Pos()) {
								return true
							}
						}
					}
				}
			}
			if _, ok := p.(*ast.FuncLit); ok {
				break
			}
		}
	}
	return false
}

func parentMap(root ast.Node) map[ast.Node]ast.Node {
	parents := map[ast.Node]ast.Node{}
	var stack []ast.Node
	ast.Inspect(root, func(n ast.Node) bool {
		if n == nil {
			stack = stack[:len(stack)-1]
			return true
		}
		if len(stack) > 0 {
			parents[n] = stack[len(stack)-1]
		}
		stack = append(stack, n)
		return true
	})
	return parents
}

// mustPass reports whether every path from the entry of body to a return that
// can succeed (or to the end of the function) passes through one of the given
// positions (call sites). When it does not, the position of an escaping
// return is given.
func mustPass(info *types.Info, body *ast.BlockStmt, sites []token.Pos) (bool, token.Pos) {
	return mustPassX(info, body, sites, nil)
}

// emptyGuarded: the return sits in the THEN arm of `if len(E) == 0` with E in
// allowed: the collection whose elements the rule is applied to is empty, so
// nothing is skipped.
func emptyGuarded(ret *ast.ReturnStmt, parents map[ast.Node]ast.Node, allowed func(e ast.Expr) bool) bool {
	for p := parents[ret]; p != nil; p = parents[p] {
		if is, ok := p.(*ast.IfStmt); ok && nodeContains(is.Body, ret.Pos()) {
			coll := emptinessTestOf(is.Cond)
			if coll == nil {
				return false
			}
			return allowed(coll)
		}
		if _, ok := p.(*ast.FuncLit); ok {
			return false
		}
	}
	return false
}

func mustPassX(info *types.Info, body *ast.BlockStmt, sites []token.Pos, allowedEmpty func(e ast.Expr) bool) (bool, token.Pos) {
	g := buildCFG(body)
	parents := parentMap(body)
	marked := func(b *cfg.Block) (bool, int) {
		for i, n := range b.Nodes {
			for _, s := range sites {
				if nodeContains(n, s) {
					return true, i
				}
			}
		}
		return false, -1
	}
	type key struct {
		b     *cfg.Block
		empty bool
	}
	seen := map[key]bool{}
	var escape token.Pos
	ok := true
	// empty: on this path a test has established that the collection the rule ranges over is empty (the false arm of
	// `if len(E) > 0`, the true arm of `if len(E) == 0`, in any spelling): nothing is skipped by returning
	var dfs func(b *cfg.Block, empty bool)
	dfs = func(b *cfg.Block, empty bool) {
		if seen[key{b, empty}] || !ok {
			return
		}
		seen[key{b, empty}] = true
		m, mi := marked(b)
		for i, n := range b.Nodes {
			if m && i >= mi {
				return // passed a site
			}
			if ret, isRet := n.(*ast.ReturnStmt); isRet {
				if !empty && !failureReturn(info, ret, parents) && !(allowedEmpty != nil && emptyGuarded(ret, parents, allowedEmpty)) {
					ok = false
					escape = ret.Pos()
				}
				return
			}
		}
		if m {
			return
		}
		if len(b.Succs) == 0 {
			// fell off the end of the function (no explicit return)
			if len(b.Nodes) == 0 || func() bool { _, isRet := b.Nodes[len(b.Nodes)-1].(*ast.ReturnStmt); return !isRet }() {
				if b.Live && !empty {
					ok = false
					escape = body.End()
				}
			}
			return
		}
		if len(b.Succs) == 2 && len(b.Nodes) > 0 && allowedEmpty != nil {
			if cond, isExpr := b.Nodes[len(b.Nodes)-1].(ast.Expr); isExpr {
				if e := emptinessTestOf(cond); e != nil && allowedEmpty(e) {
					dfs(b.Succs[0], true)
					dfs(b.Succs[1], empty)
					return
				}
				if e := nonEmptinessTestOf(cond); e != nil && allowedEmpty(e) {
					dfs(b.Succs[0], empty)
					dfs(b.Succs[1], true)
					return
				}
			}
		}
		for _, s := range b.Succs {
			dfs(s, empty)
		}
	}
	if len(g.Blocks) > 0 {
		dfs(g.Blocks[0], false)
	}
	return ok, escape
}

// ErrHandling classifies how the error result of a call is treated.
type ErrHandling int

const (
	ErrPropagated ErrHandling = iota // tested and returned / returned directly / used as a failing condition
	ErrSwallowed                     // discarded, or only the success arm is handled
	ErrNotApplicable
)

// classifyErrorUse decides, for a call whose last result is an error (or whose
// single result is a bool standing for "invalid"), whether the failure arm
// leaves the function with a non-nil error. Accepted idioms (enumerated from
// the tree):
//
//	if err := f(); err != nil { return …non-nil… }
//	x, err := f()  /  err = f()   followed by   if err != nil { return …non-nil… }
//	return f()  /  return x, f()
//	if f() { return …non-nil… }            (bool validators)
func classifyErrorUse(info *types.Info, fnBody *ast.BlockStmt, call *ast.CallExpr, parents map[ast.Node]ast.Node) (ErrHandling, string) {
	p := parents[call]
	for {
		if pe, ok := p.(*ast.ParenExpr); ok {
			p = parents[pe]
			continue
		}
		break
	}
	retNonNil := func(body *ast.BlockStmt) bool {
		if len(body.List) == 0 {
			return false
		}
		ret, ok := body.List[len(body.List)-1].(*ast.ReturnStmt)
		if !ok || len(ret.Results) == 0 {
			return false
		}
		last := ast.Unparen(ret.Results[len(ret.Results)-1])
		if id, ok := last.(*ast.Ident); ok && id.Name == "nil" {
			return false
		}
		return true
	}
	errTestedThenReturned := func(errObj types.Object, ifs *ast.IfStmt) (bool, string) {
		be, ok := ast.Unparen(ifs.Cond).(*ast.BinaryExpr)
		if !ok {
			return false, "error is not compared with nil directly"
		}
		isErr := func(e ast.Expr) bool {
			id, ok := ast.Unparen(e).(*ast.Ident)
			return ok && info.ObjectOf(id) == errObj
		}
		isNil := func(e ast.Expr) bool {
			id, ok := ast.Unparen(e).(*ast.Ident)
			return ok && id.Name == "nil"
		}
		if be.Op == token.NEQ && isErr(be.X) && isNil(be.Y) {
			if retNonNil(ifs.Body) {
				return true, ""
			}
			return false, "the err != nil arm does not return a non-nil error"
		}
		return false, "the error is only tested inside a compound condition (" + types.ExprString(ifs.Cond) + "): the failure arm is not a return of the error"
	}
	switch x := p.(type) {
	case *ast.ReturnStmt:
		return ErrPropagated, ""
	case *ast.IfStmt:
		if x.Cond == ast.Expr(call) || nodeContains(x.Cond, call.Pos()) {
			// bool validator used as condition
			if be, ok := ast.Unparen(x.Cond).(*ast.UnaryExpr); ok && be.Op == token.NOT {
				return ErrSwallowed, "validator result negated"
			}
			if ast.Unparen(x.Cond) == ast.Expr(call) && retNonNil(x.Body) {
				return ErrPropagated, ""
			}
			return ErrSwallowed, "validator used in a condition whose true arm does not return an error"
		}
	case *ast.AssignStmt:
		// find the error variable (last LHS)
		if len(x.Lhs) == 0 {
			return ErrSwallowed, "result not assigned"
		}
		lastL, ok := ast.Unparen(x.Lhs[len(x.Lhs)-1]).(*ast.Ident)
		if !ok || lastL.Name == "_" {
			return ErrSwallowed, "error result discarded"
		}
		errObj := info.ObjectOf(lastL)
		// if-init form
		if ifs, ok := parents[x].(*ast.IfStmt); ok && ifs.Init == ast.Stmt(x) {
			if ok2, why := errTestedThenReturned(errObj, ifs); ok2 {
				return ErrPropagated, ""
			} else {
				return ErrSwallowed, why
			}
		}
		// statement followed by if err != nil
		if blk, ok := parents[x].(*ast.BlockStmt); ok {
			for i, s := range blk.List {
				if s == ast.Stmt(x) && i+1 < len(blk.List) {
					if ifs, ok := blk.List[i+1].(*ast.IfStmt); ok {
						if ok2, why := errTestedThenReturned(errObj, ifs); ok2 {
							return ErrPropagated, ""
						} else {
							return ErrSwallowed, why
						}
					}
					return ErrSwallowed, "error is not tested by the next statement"
				}
			}
		}
		if cc, ok := parents[x].(*ast.CaseClause); ok {
			for i, s := range cc.Body {
				if s == ast.Stmt(x) && i+1 < len(cc.Body) {
					if ifs, ok := cc.Body[i+1].(*ast.IfStmt); ok {
						if ok2, why := errTestedThenReturned(errObj, ifs); ok2 {
							return ErrPropagated, ""
						} else {
							return ErrSwallowed, why
						}
					}
				}
			}
		}
		return ErrSwallowed, "error is assigned but its failure arm is not a return"
	case *ast.ExprStmt:
		return ErrSwallowed, "result ignored"
	}
	return ErrSwallowed, "unrecognised use of the error result"
}

// guardConstSet returns the set of string constants under which the first call selected by isTarget is
// reached inside root: the constants an enclosing if-condition compares one operand with (joined by ||), or
// the constants of the enclosing case clause of a tagged switch. Constants are resolved through the type
// information (literals, named constants, imported constants), so the way they are spelled does not matter.
func guardConstSet(info *types.Info, root ast.Node, isTarget func(*ast.CallExpr) bool) []string {
	var stack []ast.Node
	var out []string
	done := false
	constOf := func(e ast.Expr) (string, bool) {
		if tv, ok := info.Types[e]; ok && tv.Value != nil && tv.Value.Kind() == constant.String {
			return constant.StringVal(tv.Value), true
		}
		return "", false
	}
	// a boolean local with a single definition stands for that definition
	defs := map[types.Object][]ast.Expr{}
	ast.Inspect(root, func(n ast.Node) bool {
		if as, ok := n.(*ast.AssignStmt); ok && len(as.Lhs) == len(as.Rhs) {
			for i, l := range as.Lhs {
				if id, ok := l.(*ast.Ident); ok {
					if o := info.ObjectOf(id); o != nil {
						defs[o] = append(defs[o], as.Rhs[i])
					}
				}
			}
		}
		return true
	})
	var condSet func(e ast.Expr) []string
	condSet = func(e ast.Expr) []string {
		e = ast.Unparen(e)
		if id, ok := e.(*ast.Ident); ok {
			if o := info.ObjectOf(id); o != nil && len(defs[o]) == 1 {
				return condSet(defs[o][0])
			}
			return nil
		}
		be, ok := e.(*ast.BinaryExpr)
		if !ok {
			return nil
		}
		switch be.Op {
		case token.LOR:
			a, b := condSet(be.X), condSet(be.Y)
			if a == nil || b == nil {
				return nil
			}
			return append(a, b...)
		case token.EQL:
			if s, ok := constOf(be.X); ok {
				return []string{s}
			}
			if s, ok := constOf(be.Y); ok {
				return []string{s}
			}
		}
		return nil
	}
	ast.Inspect(root, func(n ast.Node) bool {
		if done {
			return false
		}
		if n == nil {
			stack = stack[:len(stack)-1]
			return true
		}
		stack = append(stack, n)
		if call, ok := n.(*ast.CallExpr); ok && isTarget(call) {
			done = true
			for i := len(stack) - 2; i >= 0; i-- {
				switch x := stack[i].(type) {
				case *ast.IfStmt:
					if i+1 < len(stack) && stack[i+1] == ast.Node(x.Body) {
						if vs := condSet(x.Cond); len(vs) > 0 {
							out = vs
							return false
						}
					}
				case *ast.CaseClause:
					var vs []string
					for _, e := range x.List {
						if s, ok := constOf(e); ok {
							vs = append(vs, s)
						}
					}
					if len(vs) > 0 && len(vs) == len(x.List) {
						out = vs
						return false
					}
				case *ast.FuncLit:
					return false
				}
			}
			return false
		}
		return true
	})
	sort.Strings(out)
	return out
}

// emptinessTestOf: cond is true exactly when len(E) is zero — len(E) == 0, 0 == len(E), len(E) < 1, len(E) <= 0,
// 1 > len(E), 0 >= len(E), !(len(E) > 0), !(len(E) != 0), !(len(E) >= 1); returns E, or nil.
func emptinessTestOf(cond ast.Expr) ast.Expr {
	cond = ast.Unparen(cond)
	if ue, ok := cond.(*ast.UnaryExpr); ok && ue.Op == token.NOT {
		return nonEmptinessTestOf(ue.X)
	}
	be, ok := cond.(*ast.BinaryExpr)
	if !ok {
		return nil
	}
	lenArg := func(e ast.Expr) ast.Expr {
		call, ok := ast.Unparen(e).(*ast.CallExpr)
		if !ok || len(call.Args) != 1 {
			return nil
		}
		if id, ok := call.Fun.(*ast.Ident); !ok || id.Name != "len" {
			return nil
		}
		return call.Args[0]
	}
	lit := func(e ast.Expr) string {
		if l, ok := ast.Unparen(e).(*ast.BasicLit); ok {
			return l.Value
		}
		return ""
	}
	if a := lenArg(be.X); a != nil {
		switch {
		case be.Op == token.EQL && lit(be.Y) == "0", be.Op == token.LSS && lit(be.Y) == "1", be.Op == token.LEQ && lit(be.Y) == "0":
			return a
		}
	}
	if a := lenArg(be.Y); a != nil {
		switch {
		case be.Op == token.EQL && lit(be.X) == "0", be.Op == token.GTR && lit(be.X) == "1", be.Op == token.GEQ && lit(be.X) == "0":
			return a
		}
	}
	return nil
}

// nonEmptinessTestOf: cond is true exactly when len(E) is positive.
func nonEmptinessTestOf(cond ast.Expr) ast.Expr {
	cond = ast.Unparen(cond)
	if ue, ok := cond.(*ast.UnaryExpr); ok && ue.Op == token.NOT {
		return emptinessTestOf(ue.X)
	}
	be, ok := cond.(*ast.BinaryExpr)
	if !ok {
		return nil
	}
	lenArg := func(e ast.Expr) ast.Expr {
		call, ok := ast.Unparen(e).(*ast.CallExpr)
		if !ok || len(call.Args) != 1 {
			return nil
		}
		if id, ok := call.Fun.(*ast.Ident); !ok || id.Name != "len" {
			return nil
		}
		return call.Args[0]
	}
	lit := func(e ast.Expr) string {
		if l, ok := ast.Unparen(e).(*ast.BasicLit); ok {
			return l.Value
		}
		return ""
	}
	if a := lenArg(be.X); a != nil {
		switch {
		case be.Op == token.NEQ && lit(be.Y) == "0", be.Op == token.GTR && lit(be.Y) == "0", be.Op == token.GEQ && lit(be.Y) == "1":
			return a
		}
	}
	if a := lenArg(be.Y); a != nil {
		switch {
		case be.Op == token.NEQ && lit(be.X) == "0", be.Op == token.LSS && lit(be.X) == "0", be.Op == token.LEQ && lit(be.X) == "1":
			return a
		}
	}
	return nil
}
