#!/bin/sh
# bin/trymutant.sh <patch.diff> <property> [tier]  — run a property check against a scratch copy of /repo with the patch applied.
HERE=$(cd "$(dirname "$0")/.." && pwd)
. "$HERE/bin/env.sh"
patchf=$(readlink -f "$1"); prop=$2; tier=${3:-quick}
dir=$(mktemp -d /var/tmp/sebuf-m.XXXXXX); out=$(mktemp -d /var/tmp/sebuf-o.XXXXXX)
cp -r "${VERIF_BASE_REPO:-/repo}"/. "$dir"/ && rm -rf "$dir/.git"
(cd "$dir" && patch -p1 -s < "$patchf") || { echo "patch does not apply"; rm -rf "$dir" "$out"; exit 3; }
VERIF_REPO="$dir" VERIF_OUT="$out" "$HERE/bin/run" "$prop" "$tier" 2>&1 | sed "s#$dir/##g" | grep -v "^KNOWN-FINDING" | cut -c1-420
code=$?
rm -rf "$dir" "$out"
