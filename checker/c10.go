package main

// C10 — errors surface with the documented status, body, format and client-side type.

import (
	"fmt"
	"go/ast"
	"go/token"
	"go/types"
	"regexp"
	"strings"
)

func init() { props["C10"] = checkC10 }

type retRow struct {
	Guard string // text of the innermost enclosing if condition ("" = unconditional)
	Value string // text of the returned expression
	Const string // constant value, if any
	Pos   token.Pos
}

func returnTable(ep *EmittedPkg, fd *ast.FuncDecl) []retRow {
	parents := parentMap(fd.Body)
	var rows []retRow
	ast.Inspect(fd.Body, func(n ast.Node) bool {
		if _, ok := n.(*ast.FuncLit); ok {
			return false
		}
		ret, ok := n.(*ast.ReturnStmt)
		if !ok || len(ret.Results) == 0 {
			return true
		}
		row := retRow{Value: ep.Text(ret.Results[0]), Pos: ret.Pos()}
		if tv, ok := ep.Info.Types[ret.Results[0]]; ok && tv.Value != nil {
			row.Const = tv.Value.ExactString()
		}
		for p := parents[ast.Node(ret)]; p != nil; p = parents[p] {
			if ifs, ok := p.(*ast.IfStmt); ok && nodeContains(ifs.Body, ret.Pos()) {
				g := types.ExprString(ifs.Cond)
				if ifs.Init != nil {
					if as, ok := ifs.Init.(*ast.AssignStmt); ok && len(as.Rhs) == 1 {
						g = types.ExprString(as.Rhs[0]) + "; " + g
					}
				}
				row.Guard = g
				break
			}
		}
		rows = append(rows, row)
		return true
	})
	return rows
}

// asTargetType: for guard `errors.As(err, &v)` return the type of v.
func asTargetType(ep *EmittedPkg, fd *ast.FuncDecl, guard string) string {
	i := strings.Index(guard, "errors.As(err, &")
	if i < 0 {
		return ""
	}
	name := strings.TrimSuffix(guard[i+len("errors.As(err, &"):], ")")
	if o := localVar(ep, fd.Body, name); o != nil {
		return o.Type().String()
	}
	return ""
}

func checkC10(c *Ctx) {
	r := c.R
	r.Explain = "Decides structural clauses of C10 on the reconstructed, type-checked go-http runtime and on the parsed client helpers. R10a status and body tables: defaultErrorStatusCode returns 400 exactly on the errors.As(*ValidationError) arm and 500 otherwise; defaultErrorResponse passes ValidationError, Error and proto.Message errors through and wraps anything else into Error{Message: err.Error()}; genericHandler wraps non-proto handler errors the same way. R10b error-hook typestate in writeErrorWithHandler: nothing is written after the hook wrote the body; if the hook wrote the header only a body writer that cannot reach WriteHeader is used (effect summaries); nil hook result falls back to the default response; the status is the default status; responseCapture sets its flags. R10c all response writers dispatch on the request content type with one and the same table (sibling agreement of marshalResponse / writeProtoMessageResponse / writeResponseBody / genericHandler / bindDataBasedOnContentType) and set a Content-Type of the same class as the encoder. R10d the violation field path joins every element of the protovalidate path with '.'. R10e clients: Go handleErrorResponse tries ValidationError first on 400, never returns nil, the fallback carries status and body, the RPC method hands the same content-type variable to marshalRequest, the Content-Type header, unmarshalResponse and handleErrorResponse and returns the error for every status >= 400; TS handleError pairs 400/violations and throws ApiError(status, …, body). R10f messages named *Error get a pointer-receiver Error() string; sebuf's own Error and ValidationError implement error. Not decided: effects of arbitrary user hooks beyond the tracked writer effects; byte-level bodies."
	r.Trusted = []string{"errors.As semantics; http.ResponseWriter contract (WriteHeader once)"}
	r.Rule("R10a", "status and default-body tables of the emitted error path", 7)
	r.Rule("R10b", "error hook typestate: no double header, no write after the hook wrote, defaults when the hook returns nil", 7)
	r.Rule("R10c", "one content-type dispatch table for every writer and the request binder; Content-Type header class matches the encoder", 10)
	r.Rule("R10d", "violation field path is the dotted join of all path elements", 3)
	r.Rule("R10e", "client-side mapping of error responses (Go and TS)", 8)
	r.Rule("R10j", "the 400 body for an undecodable request is deliverable: decoder error text (which quotes raw request bytes) reaches FieldViolation.Description only through a UTF-8 sanitiser or %q — an invalid-UTF-8 proto3 string makes the marshalling of the ValidationError fail and the client gets a bare text 400", 1)
	decodeErrorTextSanitised(c, "R10j")
	r.Rule("R10m", "one violation per offending header: every index into the merged header map of the emitted validateHeaders, stores and seen-lookups alike, uses the case-folded name (shared with C09/R09n)", 2)
	if ep, err := c.ServerRuntime(); err == nil {
		c09MergeKeysFolded(c, ep, "R10m")
	} else {
		r.Unres("R10m", "emitted server runtime", "", err.Error())
	}
	r.Rule("R10l", "violations of the URL binders are deliverable as the documented 400 body: no raw URL value in a description except under %q (shared with C02/R02q)", 2)
	if ep10, err10 := c.ServerRuntime(); err10 == nil {
		urlValueNotEchoed(c, ep10, "R10l")
	}
	r.Rule("R10k", "every registration starts from a fresh default configuration: getDefaultConfiguration returns a new value, not the address of a package-level variable that an earlier registration's options (error hook, mux) were written into", 1)
	freshDefaultConfiguration(c, "R10k")
	r.Rule("R10i", "TS server: validation failures are answered with the documented 400 {violations} whether or not an onError hook is configured (the ValidationError arm precedes the hook)", 1)
	r.Rule("R10f", "error interface for *Error messages and the built-in error messages", 4)
	r.Rule("R10g", "every error response of the request path goes through the hook-aware writer (the pre-hook helpers are called only by each other)", 1)

	ep, err := c.ServerRuntime()
	if err != nil {
		r.Unres("R10a", "emitted server runtime", "", err.Error())
		return
	}
	eff := NewEffects(ep)
	r.Rule("R10h", "URL-binding violations name the bound field, as the body-validation violations do (shared with C02/R02c)", 3)
	binderViolationFields(c, ep, "R10h")

	// ---- R10g who may write an error response past the hook
	{
		legacy := map[string]bool{"writeValidationErrorResponse": true, "writeValidationError": true, "writeErrorResponse": true, "writeProtoMessageResponse": true}
		n := 0
		for name, fd := range ep.Funcs {
			if fd.Body == nil {
				continue
			}
			ast.Inspect(fd.Body, func(nd ast.Node) bool {
				call, ok := nd.(*ast.CallExpr)
				if !ok {
					return true
				}
				id, ok := call.Fun.(*ast.Ident)
				if !ok || !legacy[id.Name] {
					return true
				}
				n++
				r.Check(legacy[name] || name == "writeErrorWithHandler", "R10g", name+" does not bypass the error hook (call of "+id.Name+")", ep.GenPos(call.Pos()),
					fmt.Sprintf("%s writes an error response with %s, the pre-hook helper: the configured ErrorHandler (WithErrorHandler) is not consulted for this failure although it is for every other one — status, headers and body chosen by the hook are ignored", name, id.Name))
				return true
			})
		}
		_, hasHook := ep.Funcs["writeErrorWithHandler"]
		r.Check(hasHook, "R10g", "writeErrorWithHandler is emitted", "", "the hook-aware error writer is not part of the runtime")
		r.Count("legacy error-writer call sites", n)
	}

	violationFieldNonEmpty(c, ep, "R10d")

	// ---- R10a
	if fd := ep.Funcs["defaultErrorStatusCode"]; fd == nil {
		r.Unres("R10a", "defaultErrorStatusCode", "", "not emitted")
	} else {
		rows := returnTable(ep, fd)
		n400, n500, other := 0, 0, 0
		okGuard := true
		for _, row := range rows {
			switch row.Const {
			case "400":
				n400++
				if !strings.Contains(asTargetType(ep, fd, row.Guard), "ValidationError") {
					okGuard = false
				}
			case "500":
				n500++
				if row.Guard != "" {
					okGuard = false
				}
			default:
				other++
			}
		}
		r.CheckD(n400 == 1 && n500 == 1 && other == 0 && okGuard, "R10a", "defaultErrorStatusCode: 400 iff ValidationError, else 500", ep.GenPos(fd.Pos()),
			fmt.Sprintf("status table is not {errors.As(*ValidationError) -> 400, otherwise -> 500}: %d×400 %d×500 %d other, guard ok=%v", n400, n500, other, okGuard), map[string]any{"rows": rows})
	}
	if fd := ep.Funcs["defaultErrorResponse"]; fd == nil {
		r.Unres("R10a", "defaultErrorResponse", "", "not emitted")
	} else {
		rows := returnTable(ep, fd)
		want := []struct{ guardHas, valueHas, what string }{
			{"ValidationError", "valErr", "ValidationError passes through"},
			{"sebuf/http.Error", "handlerErr", "Error passes through"},
			{"err.(proto.Message)", "protoErr", "proto.Message errors pass through with all their fields"},
			{"", "&sebufhttp.Error{Message: err.Error()}", "anything else is wrapped into Error{Message: err.Error()}"},
		}
		for i, w := range want {
			ok := i < len(rows)
			if ok {
				g := rows[i].Guard
				if t := asTargetType(ep, fd, g); t != "" {
					g = t
				}
				ok = strings.Contains(g, w.guardHas) && strings.Contains(rows[i].Value, w.valueHas)
				if w.guardHas == "" {
					ok = rows[i].Guard == "" && rows[i].Value == w.valueHas
				}
			}
			pos := ""
			if i < len(rows) {
				pos = ep.GenPos(rows[i].Pos)
			}
			r.Check(ok, "R10a", "defaultErrorResponse: "+w.what, pos, "default error body table deviates: "+w.what)
		}
	}
	if fd := ep.Funcs["genericHandler"]; fd == nil {
		r.Unres("R10a", "genericHandler", "", "not emitted")
	} else {
		// inside `if err != nil` of the serve call: proto errors passed as is, others wrapped
		passes, wraps := false, false
		ast.Inspect(fd.Body, func(n ast.Node) bool {
			ifs, ok := n.(*ast.IfStmt)
			if !ok {
				return true
			}
			if strings.Contains(types.ExprString(ifs.Cond), "ok") && ifs.Init != nil && strings.Contains(types.ExprString(ifs.Init.(*ast.AssignStmt).Rhs[0]), "err.(proto.Message)") {
				ast.Inspect(ifs.Body, func(m ast.Node) bool {
					if call, ok := m.(*ast.CallExpr); ok && types.ExprString(call.Fun) == "writeErrorWithHandler" && len(call.Args) > 2 && types.ExprString(call.Args[2]) == "err" {
						passes = true
					}
					return true
				})
			}
			return true
		})
		ast.Inspect(fd.Body, func(n ast.Node) bool {
			if cl, ok := n.(*ast.CompositeLit); ok && types.ExprString(cl.Type) == "sebufhttp.Error" {
				for _, el := range cl.Elts {
					if kv, ok := el.(*ast.KeyValueExpr); ok && types.ExprString(kv.Key) == "Message" && types.ExprString(kv.Value) == "err.Error()" {
						wraps = true
					}
				}
			}
			return true
		})
		r.Check(passes, "R10a", "genericHandler: a handler error that is a proto.Message is passed on unchanged", ep.GenPos(fd.Pos()), "proto.Message handler errors are not handed to writeErrorWithHandler as they are")
		r.Check(wraps, "R10a", "genericHandler: a plain handler error becomes Error{Message: err.Error()}", ep.GenPos(fd.Pos()), "plain handler errors are not wrapped with their message")
	}

	// ---- R10b
	if fd := ep.Funcs["writeErrorWithHandler"]; fd == nil {
		r.Unres("R10b", "writeErrorWithHandler", "", "not emitted")
	} else {
		wObj := paramObj(ep, fd.Type, "w")
		dw := eff.derived(fd.Body, wObj)
		// 1. `if capture.written { return }` directly after the hook call
		writtenReturn := false
		var hookIf *ast.IfStmt
		ast.Inspect(fd.Body, func(n ast.Node) bool {
			if ifs, ok := n.(*ast.IfStmt); ok {
				cs := types.ExprString(ifs.Cond)
				if cs == "handler != nil" {
					hookIf = ifs
				}
				if cs == "capture.written" && len(ifs.Body.List) == 1 {
					if _, ok := ifs.Body.List[0].(*ast.ReturnStmt); ok {
						writtenReturn = true
					}
				}
			}
			return true
		})
		r.Check(hookIf != nil && writtenReturn, "R10b", "writeErrorWithHandler: nothing is written after the hook wrote the body", ep.GenPos(fd.Pos()),
			"`if capture.written { return }` is missing after the hook call: the default body would be appended to what the hook wrote")
		// the hook is given the capture, not w
		hookGetsCapture := false
		if hookIf != nil {
			ast.Inspect(hookIf.Body, func(n ast.Node) bool {
				if call, ok := n.(*ast.CallExpr); ok && types.ExprString(call.Fun) == "handler" && len(call.Args) == 3 {
					hookGetsCapture = types.ExprString(call.Args[0]) == "capture"
				}
				return true
			})
		}
		r.Check(hookGetsCapture, "R10b", "writeErrorWithHandler: the hook writes through the responseCapture", ep.GenPos(fd.Pos()), "the hook is not called with the capture wrapper: header/body writes by the hook go unnoticed")
		// 2. wroteHeader arm: no EffWriteHeader on w
		var whIf *ast.IfStmt
		ast.Inspect(fd.Body, func(n ast.Node) bool {
			if ifs, ok := n.(*ast.IfStmt); ok && strings.Contains(types.ExprString(ifs.Cond), "capture.wroteHeader") {
				whIf = ifs
			}
			return true
		})
		if whIf == nil {
			r.Bad("R10b", "writeErrorWithHandler: wroteHeader arm", ep.GenPos(fd.Pos()), "no branch on capture.wroteHeader: a status set by the hook would be followed by a second WriteHeader", nil)
		} else {
			double := false
			returns := false
			eff.walkCalls(whIf.Body, func(call *ast.CallExpr) {
				for _, ev := range eff.callEvents(call, dw) {
					if ev.Kind == EffWriteHeader {
						double = true
					}
				}
			})
			if n := len(whIf.Body.List); n > 0 {
				_, returns = whIf.Body.List[n-1].(*ast.ReturnStmt)
			}
			r.Check(!double && returns, "R10b", "writeErrorWithHandler: after the hook set the status only the body is written", ep.GenPos(whIf.Pos()),
				"on the arm where the hook already called WriteHeader a function that (transitively) calls WriteHeader is used, or the arm does not return: the status set by the hook is overridden / superfluous WriteHeader")
			r.Check(strings.Contains(types.ExprString(whIf.Cond), "capture != nil"), "R10b", "writeErrorWithHandler: capture is nil-checked before use", ep.GenPos(whIf.Pos()), "capture.wroteHeader is read without a nil check although capture is nil when no hook is configured")
		}
		// 3. nil response default, status default
		defResp, defStatus, usesStatus := false, false, false
		ast.Inspect(fd.Body, func(n ast.Node) bool {
			switch x := n.(type) {
			case *ast.IfStmt:
				if types.ExprString(x.Cond) == "response == nil" {
					ast.Inspect(x.Body, func(m ast.Node) bool {
						if as, ok := m.(*ast.AssignStmt); ok && types.ExprString(as.Lhs[0]) == "response" && types.ExprString(as.Rhs[0]) == "defaultErrorResponse(err)" {
							defResp = true
						}
						return true
					})
				}
			case *ast.AssignStmt:
				if len(x.Lhs) == 1 && types.ExprString(x.Lhs[0]) == "statusCode" && types.ExprString(x.Rhs[0]) == "defaultErrorStatusCode(err)" {
					defStatus = true
				}
			case *ast.CallExpr:
				if types.ExprString(x.Fun) == "writeProtoMessageResponse" && len(x.Args) >= 4 && types.ExprString(x.Args[3]) == "statusCode" && types.ExprString(x.Args[2]) == "response" {
					usesStatus = true
				}
			}
			return true
		})
		r.Check(defResp, "R10b", "writeErrorWithHandler: a nil hook result falls back to the default response", ep.GenPos(fd.Pos()), "response is not defaulted with defaultErrorResponse(err) when the hook returns nil")
		r.Check(defStatus && usesStatus, "R10b", "writeErrorWithHandler: the full response uses the default status for the error", ep.GenPos(fd.Pos()), "the status passed to writeProtoMessageResponse is not defaultErrorStatusCode(err)")
		// responseCapture flags
		for _, m := range []struct{ fn, flag, deleg string }{{"responseCapture.WriteHeader", "rc.wroteHeader", "rc.ResponseWriter.WriteHeader"}, {"responseCapture.Write", "rc.written", "rc.ResponseWriter.Write"}} {
			f := ep.Funcs[m.fn]
			ok := false
			if f != nil && len(f.Body.List) >= 2 {
				if as, isAs := f.Body.List[0].(*ast.AssignStmt); isAs && types.ExprString(as.Lhs[0]) == m.flag && types.ExprString(as.Rhs[0]) == "true" {
					ok = strings.Contains(ep.Line(f.Body.List[1].Pos()), m.deleg)
				}
			}
			pos := ""
			if f != nil {
				pos = ep.GenPos(f.Pos())
			}
			r.Check(ok, "R10b", m.fn+" records the effect before delegating", pos, "responseCapture does not set "+m.flag+" (or does not delegate): the hook typestate is lost")
		}
		// writeResponseBody must not reach WriteHeader; writeProtoMessageResponse must
		r.Check(!eff.Has(objOf(ep, "writeResponseBody"), EffWriteHeader, 0), "R10b", "writeResponseBody never writes the header", "", "writeResponseBody (used after the hook set the status) can call WriteHeader")
	}

	// ---- R10c
	consts := map[string]string{}
	for _, ef := range ep.Files {
		for k, v := range constStrings(ef.AST) {
			consts[k] = v
		}
	}
	var tables []*ctTable
	for _, name := range []string{"marshalResponse", "writeProtoMessageResponse", "writeResponseBody", "bindDataBasedOnContentType"} {
		fd := ep.Funcs[name]
		if fd == nil {
			r.Unres("R10c", name, "", "not emitted")
			continue
		}
		t := extractCTTable(fd, consts)
		if t == nil {
			r.Unres("R10c", name, ep.GenPos(fd.Pos()), "no switch over the content type")
			continue
		}
		tables = append(tables, t)
		// the switch must be over the REQUEST content type, flags filtered
		ok := false
		ast.Inspect(fd.Body, func(n ast.Node) bool {
			if n == ast.Node(fd.Body) {
				tag := t.Tag
				if tag == "filterFlags(contentType)" || tag == "contentType" {
					// contentType := [filterFlags(]r.Header.Get("Content-Type")
					ast.Inspect(fd.Body, func(m ast.Node) bool {
						if as, ok3 := m.(*ast.AssignStmt); ok3 && types.ExprString(as.Lhs[0]) == "contentType" && strings.Contains(types.ExprString(as.Rhs[0]), `r.Header.Get("Content-Type")`) {
							if tag == "filterFlags(contentType)" || strings.Contains(types.ExprString(as.Rhs[0]), "filterFlags(") {
								ok = true
							}
						}
						return true
					})
				}
			}
			return true
		})
		r.Check(ok, "R10c", name+" dispatches on the request's Content-Type with parameters stripped", ep.GenPos(t.Pos), "the codec is not chosen from filterFlags(r.Header.Get(\"Content-Type\"))")
	}
	if len(tables) > 0 {
		ref := tables[0]
		universe := map[string]bool{"": true, "text/plain": true}
		for _, t := range tables {
			for _, l := range t.labels() {
				universe[l] = true
			}
		}
		for _, t := range tables {
			for _, ct := range sortedKeys(universe) {
				c0, _ := ref.codecFor(ct)
				c1, sets := t.codecFor(ct)
				r.CheckD(c0 == c1 && (c1 == "json" || c1 == "binary"), "R10c", fmt.Sprintf("%s selects the same codec as %s for %q", t.Fn, ref.Fn, ct), ep.GenPos(t.Pos),
					fmt.Sprintf("for request Content-Type %q %s uses the %s codec but %s uses %s: an error (or response) is not encoded in the request's content type", ct, t.Fn, c1, ref.Fn, c0), nil)
				for _, s := range sets {
					cls := "json"
					if strings.Contains(s, "protobuf") || strings.Contains(s, "octet-stream") {
						cls = "binary"
					}
					r.Check(cls == c1, "R10c", fmt.Sprintf("%s: Content-Type header %q matches the %s encoder for %q", t.Fn, s, c1, ct), ep.GenPos(t.Pos),
						fmt.Sprintf("response header %q announces a different format than the %s encoder used", s, c1))
				}
			}
		}
		// genericHandler's response header condition
		if fd := ep.Funcs["genericHandler"]; fd != nil {
			binSet := map[string]bool{}
			ast.Inspect(fd.Body, func(n ast.Node) bool {
				if ifs, ok := n.(*ast.IfStmt); ok && strings.Contains(types.ExprString(ifs.Cond), "ContentType") {
					ast.Inspect(ifs.Cond, func(m ast.Node) bool {
						if be, ok := m.(*ast.BinaryExpr); ok && be.Op == token.EQL {
							if id, ok := be.Y.(*ast.Ident); ok {
								binSet[consts[id.Name]] = true
							}
						}
						return true
					})
				}
				return true
			})
			for _, ct := range sortedKeys(universe) {
				c0, _ := ref.codecFor(ct)
				r.Check((c0 == "binary") == binSet[ct], "R10c", fmt.Sprintf("genericHandler announces the encoder's format for %q", ct), ep.GenPos(fd.Pos()),
					fmt.Sprintf("for request Content-Type %q the body is encoded as %s but the response Content-Type header says otherwise", ct, c0))
			}
		}
	}

	// ---- R10d
	if fd := ep.Funcs["convertProtovalidateError"]; fd == nil {
		r.Unres("R10d", "convertProtovalidateError", "", "not emitted")
	} else {
		first, loopOK, joinOK := fieldPathJoin(fd.Body)
		r.Check(first, "R10d", "field path starts with the first path element", ep.GenPos(fd.Pos()), "fieldPath is not initialised from elements[0].GetFieldName()")
		r.Check(loopOK, "R10d", "field path loop covers elements 1..len-1", ep.GenPos(fd.Pos()), "the loop over the remaining path elements does not run from 1 to len(elements)-1")
		r.Check(joinOK, "R10d", "path elements are joined with '.'", ep.GenPos(fd.Pos()), "path elements are not appended as \".\" + name")
	}

	// ---- R10e clients
	checkClientErrorMapping(c)

	// ---- R10f
	httpPk := c.P.Pkg("http")
	if httpPk == nil {
		r.Unres("R10f", "http package", "", "not loaded")
	} else {
		errIface := types.Universe.Lookup("error").Type().Underlying().(*types.Interface)
		for _, n := range []string{"Error", "ValidationError"} {
			tn, _ := httpPk.Types.Scope().Lookup(n).(*types.TypeName)
			ok := tn != nil && types.Implements(types.NewPointer(tn.Type()), errIface)
			r.Check(ok, "R10f", "*sebufhttp."+n+" implements error", "", "built-in error message does not implement the error interface: errors.As on the client side cannot find it")
		}
	}
	if ri := c.Root(pkgHTTP, "_error_impl.pb.go"); ri == nil {
		r.Unres("R10f", "_error_impl unit", "", "not found")
	} else {
		decl := c.P.Decls[ri.Fn]
		suffixOK := false
		ast.Inspect(decl.Body, func(n ast.Node) bool {
			if call, ok := n.(*ast.CallExpr); ok && types.ExprString(call.Fun) == "strings.HasSuffix" && len(call.Args) == 2 && types.ExprString(call.Args[1]) == `"Error"` {
				suffixOK = strings.Contains(types.ExprString(call.Args[0]), "GoName")
			}
			return true
		})
		r.Check(suffixOK, "R10f", "error impl is emitted for messages whose Go name ends in Error", c.P.Pos(decl.Pos()), "selection of *Error messages changed")
		ex := c.Explore(ri.Fn, 1, 500)
		sigOK := false
		for _, v := range ex.Variants {
			for _, u := range v.Units {
				for _, l := range u.Lines {
					t := lineText(l.Segs)
					if strings.HasPrefix(t, "func (e *") && strings.HasSuffix(t, ") Error() string {") {
						sigOK = true
					}
				}
			}
		}
		r.Check(sigOK, "R10f", "emitted method is `func (e *T) Error() string`", c.P.Pos(decl.Pos()), "no pointer-receiver Error() string method is emitted")
	}
}

// checkClientErrorMapping — R10e on the parsed Go client unit and the TS client text.
func checkClientErrorMapping(c *Ctx) {
	r := c.R
	ri := c.Root(pkgClient, "_client.pb.go")
	if ri == nil {
		r.Unres("R10e", "_client.pb.go", "", "unit not found")
		return
	}
	ex := c.ExploreT(ri.Fn, 4000)
	checkedHelpers := false
	laxReported := false
	nStrict := 0
	nMethods := 0
	ctBad, ctBadPos, retBadPos := "", "", ""
	for _, v := range ex.Variants {
		for _, u := range v.Units {
			fset, f, err := ParseUnit(u)
			if err != nil {
				continue // C13 reports parse failures
			}
			_ = fset
			for _, d := range f.Decls {
				fd, ok := d.(*ast.FuncDecl)
				if !ok || fd.Recv == nil || fd.Body == nil {
					continue
				}
				gen := func(p token.Pos) string {
					line := fset.Position(p).Line
					if line >= 1 && line <= len(u.Lines) {
						return c.P.Pos(u.Lines[line-1].Pos)
					}
					return ""
				}
				switch {
				case fd.Name.Name == "unmarshalResponse":
					// handleErrorResponse classifies an error body by trial decoding (ValidationError, then Error, then raw):
					// that only works while the JSON decoder rejects unknown fields
					lax := false
					ast.Inspect(fd.Body, func(n ast.Node) bool {
						if kv, ok := n.(*ast.KeyValueExpr); ok && types.ExprString(kv.Key) == "DiscardUnknown" && types.ExprString(kv.Value) == "true" {
							lax = true
						}
						return true
					})
					if lax && !laxReported {
						laxReported = true
						r.Bad("R10e", "go-client unmarshalResponse decodes strictly (unknown fields are errors)", gen(fd.Pos()), "the emitted unmarshalResponse sets DiscardUnknown: handleErrorResponse tells ValidationError, Error and other bodies apart by trial decoding, so with a lax decoder every JSON object decodes as an (empty) ValidationError or Error — a custom proto error or a hook's 400 loses its status and body and is reported as the wrong type", nil)
					}
					nStrict++
				case fd.Name.Name == "handleErrorResponse" && !checkedHelpers:
					checkedHelpers = true
					// first statement: if statusCode == http.StatusBadRequest { try ValidationError }
					first := false
					if len(fd.Body.List) > 0 {
						if ifs, ok := fd.Body.List[0].(*ast.IfStmt); ok && types.ExprString(ifs.Cond) == "statusCode == http.StatusBadRequest" {
							first = strings.Contains(nodeText(ifs.Body), "sebufhttp.ValidationError{}") && strings.Contains(nodeText(ifs.Body), "return validationErr")
						}
					}
					r.Check(first, "R10e", "go-client handleErrorResponse: a 400 is decoded as ValidationError first", gen(fd.Pos()), "the 400 arm does not try *sebufhttp.ValidationError before the generic Error")
					nilRet := false
					var last *ast.ReturnStmt
					ast.Inspect(fd.Body, func(n ast.Node) bool {
						if ret, ok := n.(*ast.ReturnStmt); ok && len(ret.Results) == 1 {
							last = ret
							if id, ok := ret.Results[0].(*ast.Ident); ok && id.Name == "nil" {
								nilRet = true
							}
						}
						return true
					})
					r.Check(!nilRet, "R10e", "go-client handleErrorResponse never returns nil", gen(fd.Pos()), "an error response can be turned into a nil error")
					fb := last != nil && strings.Contains(types.ExprString(last.Results[0]), "statusCode") && strings.Contains(types.ExprString(last.Results[0]), "body")
					r.Check(fb, "R10e", "go-client handleErrorResponse: the fallback error carries status and body", gen(fd.Pos()), "the fallback error does not mention statusCode and body")
				case containsCall(fd.Body, "c.handleErrorResponse"):
					nMethods++
					// the content-type variable handed around
					uses := map[string]string{}
					ast.Inspect(fd.Body, func(n ast.Node) bool {
						call, ok := n.(*ast.CallExpr)
						if !ok {
							return true
						}
						fn := types.ExprString(call.Fun)
						last := ""
						if len(call.Args) > 0 {
							last = types.ExprString(call.Args[len(call.Args)-1])
						}
						switch fn {
						case "c.marshalRequest", "c.unmarshalResponse", "c.handleErrorResponse":
							uses[fn] = last
						case "httpReq.Header.Set":
							if len(call.Args) == 2 && types.ExprString(call.Args[0]) == `"Content-Type"` {
								uses["Content-Type header"] = last
							}
						}
						return true
					})
					same := true
					for _, v2 := range uses {
						if v2 != "contentType" {
							same = false
						}
					}
					{
						if !(same && len(uses) >= 3) && ctBad == "" {
							ctBad = fmt.Sprintf("%v", uses)
							ctBadPos = gen(fd.Pos())
						}
						// status >= 400 returns the error
						okRet := false
						ast.Inspect(fd.Body, func(n ast.Node) bool {
							if ifs, ok := n.(*ast.IfStmt); ok && statusAtLeast400(ifs.Cond) && len(ifs.Body.List) > 0 {
								if ret, ok := ifs.Body.List[len(ifs.Body.List)-1].(*ast.ReturnStmt); ok && len(ret.Results) == 2 {
									if call, ok := ast.Unparen(ret.Results[1]).(*ast.CallExpr); ok && len(call.Args) >= 2 {
										okRet = types.ExprString(ret.Results[0]) == "nil" && strings.HasSuffix(types.ExprString(call.Fun), ".handleErrorResponse") &&
											strings.HasSuffix(types.ExprString(call.Args[0]), ".StatusCode")
									}
								}
							}
							return true
						})
						if !okRet && retBadPos == "" {
							retBadPos = gen(fd.Pos())
						}
					}
				}
			}
		}
	}
	if !checkedHelpers {
		r.Unres("R10e", "go-client handleErrorResponse", "", "helper not found in any client variant")
	}
	if nStrict > 0 && !laxReported {
		r.OKd("R10e", "go-client unmarshalResponse decodes strictly (unknown fields are errors)", "", map[string]any{"variants": nStrict})
	}
	if nMethods == 0 {
		r.Unres("R10e", "go-client RPC methods", "", "no RPC method found in any client variant")
	} else {
		r.CheckD(ctBad == "", "R10e", "go-client RPC methods (all variants): one content-type variable for request, Content-Type header, response and error decoding", ctBadPos,
			"the per-call content type is not used consistently: "+ctBad+" — the server encodes (error) responses in the request's content type, so the body is decoded with the wrong codec", map[string]any{"methods_checked": nMethods})
		r.Check(retBadPos == "", "R10e", "go-client RPC methods (all variants): every status >= 400 becomes an error", retBadPos,
			"the response status is not tested with `>= 400` returning nil and the mapped error")
	}
	// TS client
	tri := c.Root("internal/tsclientgen", "_client.ts")
	if tri == nil {
		r.Unres("R10e", "ts client unit", "", "not found")
		return
	}
	tex := c.Explore(tri.Fn, 1, 6000)
	var lines []string
	for _, v := range tex.Variants {
		for _, u := range v.Units {
			for _, l := range u.Lines {
				if l.Fn != nil && l.Fn == c.P.Func(pkgTSClient, "Generator.generateHandleError") {
					lines = append(lines, lineText(l.Segs))
				}
			}
			if len(lines) > 0 {
				break
			}
		}
		if len(lines) > 0 {
			break
		}
	}
	txt := strings.Join(lines, "\n")
	// the emitted locals may have any name: the response parameter is read off the signature, the parsed body off
	// the ValidationError construction
	rv := "resp"
	if m := regexp.MustCompile(`handleError\((\w+): Response\)`).FindStringSubmatch(txt); m != nil {
		rv = m[1]
	}
	pv := "parsed"
	if m := regexp.MustCompile(`new ValidationError\((\w+)\.violations\)`).FindStringSubmatch(txt); m != nil {
		pv = m[1]
	}
	r.Check(strings.Contains(txt, rv+".status === 400") && strings.Contains(txt, pv+".violations") && strings.Contains(txt, "new ValidationError("+pv+".violations)"),
		"R10e", "ts-client handleError: 400 with violations becomes ValidationError", "", "the TS client's 400/violations mapping changed")
	bodyVar := ""
	if m := regexp.MustCompile(`const (\w+) = await ` + regexp.QuoteMeta(rv) + `\.text\(\)`).FindStringSubmatch(txt); m != nil {
		bodyVar = m[1]
	}
	r.Check(bodyVar != "" && regexp.MustCompile(`throw new ApiError\(`+regexp.QuoteMeta(rv)+`\.status,.*, `+regexp.QuoteMeta(bodyVar)+`\)`).MatchString(txt), "R10e", "ts-client handleError: other failures throw ApiError(status, …, body)", "", "the TS client's fallback error does not carry status and body")
	// a fetch body can be consumed once: handleError reads it with exactly one of resp.text() / resp.json() / …
	nReads := 0
	for _, m := range []string{".text()", ".json()", ".arrayBuffer()", ".blob()", ".formData()"} {
		nReads += strings.Count(txt, rv+m)
	}
	r.Check(nReads == 1, "R10e", "ts-client handleError reads the response body exactly once", "",
		fmt.Sprintf("the emitted handleError consumes the response body %d times: the second read of a fetch body rejects with `TypeError: Body is unusable`, so a 400 whose body is not a violations object (a hook's own error, plain text) surfaces as a TypeError instead of ApiError(status, …, body)", nReads))
	// TS server side constants
	sri := c.Root("internal/tsservergen", "_server.ts")
	if sri != nil {
		sex := c.Explore(sri.Fn, 1, 6000)
		if len(sex.Variants) > 0 {
			t := sex.Variants[0].Units[0].Text()
			i := strings.Index(t, "{ violations: err.violations }")
			j := strings.Index(t, "JSON.stringify({ message })")
			ok := i >= 0 && j >= 0 && strings.Contains(t[i:min(len(t), i+120)], "status: 400") && strings.Contains(t[j:min(len(t), j+120)], "status: 500")
			r.Check(ok, "R10e", "ts-server: {violations} with 400 and {message} with 500", "", "the TS server's error statuses/bodies no longer pair with the clients' mapping")
			// R10i: in every route's catch block the ValidationError arm comes before the user's onError hook (in all variants)
			badOrder, nCatch := "", 0
			for _, v := range sex.Variants {
				for _, u := range v.Units {
					txt := u.Text()
					for off := 0; ; {
						k := strings.Index(txt[off:], "catch (")
						if k < 0 {
							break
						}
						k += off
						end := strings.Index(txt[k:], "\n        },")
						blk := txt[k:]
						if end > 0 {
							blk = txt[k : k+end]
						}
						off = k + 7
						a, b := strings.Index(blk, "instanceof ValidationError"), strings.Index(blk, "onError")
						if a < 0 && b < 0 {
							continue
						}
						nCatch++
						if a < 0 || (b >= 0 && b < a) {
							badOrder = v.DecString()
						}
					}
				}
			}
			r.CheckD(badOrder == "" && nCatch > 0, "R10i", "ts-server routes: a ValidationError is answered with 400 {violations} before the onError hook is consulted", "",
				"in a route's catch block the onError hook is consulted before (or instead of) the ValidationError arm ("+badOrder+"): with a hook configured every validation failure — missing or malformed required header, request validation — is handed to the hook and surfaces as the hook's status (500 {message}) instead of the documented 400 with the violation list", map[string]any{"catch_blocks": nCatch})
		}
	}
}

func nodeText(n ast.Node) string {
	var b strings.Builder
	ast.Inspect(n, func(m ast.Node) bool {
		switch x := m.(type) {
		case *ast.CompositeLit:
			b.WriteString(types.ExprString(x) + " ")
		case *ast.ReturnStmt:
			b.WriteString("return ")
			for _, r := range x.Results {
				b.WriteString(types.ExprString(r) + " ")
			}
		}
		return true
	})
	return b.String()
}

func containsCall(n ast.Node, fun string) bool {
	found := false
	ast.Inspect(n, func(m ast.Node) bool {
		if call, ok := m.(*ast.CallExpr); ok && types.ExprString(call.Fun) == fun {
			found = true
		}
		return !found
	})
	return found
}

// violationFieldNonEmpty: a FieldViolation whose Field is a local that starts out empty must pass an
// unconditional non-empty fallback before it is appended (protojson drops an empty string, and the
// published FieldViolation schema requires `field`).
func violationFieldNonEmpty(c *Ctx, ep *EmittedPkg, rule string) {
	r := c.R
	n := 0
	for name, fd := range ep.Funcs {
		if fd.Body == nil {
			continue
		}
		parents := parentMap(fd.Body)
		ast.Inspect(fd.Body, func(nd ast.Node) bool {
			cl, ok := nd.(*ast.CompositeLit)
			if !ok || !strings.HasSuffix(types.ExprString(cl.Type), "FieldViolation") {
				return true
			}
			var fieldExpr ast.Expr
			for _, el := range cl.Elts {
				if kv, ok := el.(*ast.KeyValueExpr); ok && types.ExprString(kv.Key) == "Field" {
					fieldExpr = kv.Value
				}
			}
			id, ok := fieldExpr.(*ast.Ident)
			if !ok {
				return true
			}
			// is the local initialised empty?
			startsEmpty := false
			ast.Inspect(fd.Body, func(m ast.Node) bool {
				if as, ok := m.(*ast.AssignStmt); ok && as.Tok == token.DEFINE && len(as.Lhs) == 1 && types.ExprString(as.Lhs[0]) == id.Name {
					if bl, ok := as.Rhs[0].(*ast.BasicLit); ok && bl.Value == `""` {
						startsEmpty = true
					}
				}
				return true
			})
			if !startsEmpty {
				return true
			}
			n++
			// the statement holding the literal and its block
			var stmt ast.Node = cl
			var list []ast.Stmt
			for p := parents[stmt]; p != nil; p = parents[p] {
				if b, ok := p.(*ast.BlockStmt); ok {
					list = b.List
					break
				}
				stmt = p
			}
			okFallback := false
			for _, st := range list {
				if st.Pos() >= stmt.Pos() {
					break
				}
				ifs, ok := st.(*ast.IfStmt)
				if !ok || types.ExprString(ifs.Cond) != id.Name+` == ""` || len(ifs.Body.List) != 1 {
					continue
				}
				if as, ok := ifs.Body.List[0].(*ast.AssignStmt); ok && types.ExprString(as.Lhs[0]) == id.Name {
					if bl, ok := as.Rhs[0].(*ast.BasicLit); ok && len(bl.Value) > 2 {
						okFallback = true
					}
				}
			}
			r.Check(okFallback, rule, name+": a violation's field is never empty ("+id.Name+")", ep.GenPos(cl.Pos()),
				fmt.Sprintf("%s appends a FieldViolation whose Field is the local %s, which starts empty, without an unconditional `if %s == \"\" { %s = \"…\" }` in the same block before it: for a violation without a field path (message-level rule) the 400 body has no \"field\" key, which the published FieldViolation schema requires", name, id.Name, id.Name, id.Name))
			return true
		})
	}
	r.Check(n > 0, rule, "violation literals with a computed field path found", "", "no FieldViolation literal with a locally computed field was found in the runtime")
}

// statusAtLeast400: `<x>.StatusCode >= 400`, `>= http.StatusBadRequest`, `> 399` (emitted code is parsed, not
// type-checked, so the spellings of the constant are enumerated).
func statusAtLeast400(e ast.Expr) bool {
	be, ok := ast.Unparen(e).(*ast.BinaryExpr)
	if !ok || !strings.HasSuffix(types.ExprString(be.X), ".StatusCode") {
		return false
	}
	y := types.ExprString(be.Y)
	switch be.Op {
	case token.GEQ:
		return y == "400" || y == "http.StatusBadRequest"
	case token.GTR:
		return y == "399"
	}
	return false
}

// fieldPathJoin reads the emitted violation-path code: the path variable is initialised from element 0's
// name; a loop visits every remaining element (index loop from 1 to len, or a range over elems[1:]); each
// iteration appends "." + that element's name. Variable names are free.
func fieldPathJoin(body *ast.BlockStmt) (first, loopOK, joinOK bool) {
	pathVar, elems := "", ""
	nameOf := func(e ast.Expr) (recv ast.Expr, ok bool) { // X.GetFieldName()
		call, ok1 := ast.Unparen(e).(*ast.CallExpr)
		if !ok1 || len(call.Args) != 0 {
			return nil, false
		}
		sel, ok2 := call.Fun.(*ast.SelectorExpr)
		if !ok2 || sel.Sel.Name != "GetFieldName" {
			return nil, false
		}
		return sel.X, true
	}
	ast.Inspect(body, func(n ast.Node) bool {
		as, ok := n.(*ast.AssignStmt)
		if !ok || len(as.Lhs) != 1 || len(as.Rhs) != 1 || as.Tok != token.ASSIGN || pathVar != "" {
			return true
		}
		if x, ok := nameOf(as.Rhs[0]); ok {
			if ix, ok := x.(*ast.IndexExpr); ok && types.ExprString(ix.Index) == "0" {
				pathVar, elems = types.ExprString(as.Lhs[0]), types.ExprString(ix.X)
				first = true
			}
		}
		return true
	})
	if !first {
		return
	}
	appendOf := func(loopBody *ast.BlockStmt, elem string) bool {
		ok := false
		for _, st := range loopBody.List {
			as, isAs := st.(*ast.AssignStmt)
			if !isAs || len(as.Lhs) != 1 || types.ExprString(as.Lhs[0]) != pathVar {
				continue
			}
			var rhs ast.Expr
			switch as.Tok {
			case token.ADD_ASSIGN:
				rhs = as.Rhs[0]
			case token.ASSIGN: // p = p + "." + name
				if be, isBin := as.Rhs[0].(*ast.BinaryExpr); isBin && be.Op == token.ADD {
					if inner, isBin2 := be.X.(*ast.BinaryExpr); isBin2 && inner.Op == token.ADD && types.ExprString(inner.X) == pathVar {
						rhs = &ast.BinaryExpr{X: inner.Y, Op: token.ADD, Y: be.Y}
					}
				}
			}
			be, isBin := rhs.(*ast.BinaryExpr)
			if !isBin || be.Op != token.ADD || types.ExprString(be.X) != `"."` {
				continue
			}
			if x, isName := nameOf(be.Y); isName && types.ExprString(x) == elem {
				ok = true
			}
		}
		return ok
	}
	ast.Inspect(body, func(n ast.Node) bool {
		switch x := n.(type) {
		case *ast.ForStmt:
			init, ok1 := x.Init.(*ast.AssignStmt)
			cond, ok2 := x.Cond.(*ast.BinaryExpr)
			inc, ok3 := x.Post.(*ast.IncDecStmt)
			if !ok1 || !ok2 || !ok3 || len(init.Lhs) != 1 || len(init.Rhs) != 1 {
				return true
			}
			iv := types.ExprString(init.Lhs[0])
			if types.ExprString(init.Rhs[0]) == "1" && cond.Op == token.LSS && types.ExprString(cond.X) == iv &&
				types.ExprString(cond.Y) == "len("+elems+")" && inc.Tok == token.INC && types.ExprString(inc.X) == iv {
				loopOK = true
				if appendOf(x.Body, elems+"["+iv+"]") {
					joinOK = true
				}
			}
		case *ast.RangeStmt:
			sl, ok := ast.Unparen(x.X).(*ast.SliceExpr)
			if !ok || types.ExprString(sl.X) != elems || sl.Low == nil || types.ExprString(sl.Low) != "1" || sl.High != nil {
				return true
			}
			loopOK = true
			if x.Value != nil && appendOf(x.Body, types.ExprString(x.Value)) {
				joinOK = true
			}
		}
		return true
	})
	return
}

// decodeErrorTextSanitised — R10j / R11i. In the emitted BindingMiddleware the error of the body decoder
// (bindDataBasedOnContentType → protojson / proto / a message's own UnmarshalJSON) describes the offending input and may
// quote its raw bytes. Where that error is formatted into a FieldViolation's Description (a proto3 string), the formatted
// text must pass through strings.ToValidUTF8 (or the error be printed with %q): otherwise a body with invalid UTF-8 yields
// a ValidationError that cannot be marshalled, and the documented 400 body degrades to plain text.
func decodeErrorTextSanitised(c *Ctx, rid string) {
	r := c.R
	ep, err := c.ServerRuntime()
	if err != nil {
		r.Unres(rid, "emitted server runtime", "", err.Error())
		return
	}
	fd, lit := middlewareLit(ep)
	if fd == nil || lit == nil {
		r.Unres(rid, "BindingMiddleware handler literal", "", "not found")
		return
	}
	// error variables assigned from the body decoder
	tainted := map[types.Object]bool{}
	ast.Inspect(lit.Body, func(nd ast.Node) bool {
		as, ok := nd.(*ast.AssignStmt)
		if !ok || len(as.Rhs) != 1 {
			return true
		}
		call, ok := ast.Unparen(as.Rhs[0]).(*ast.CallExpr)
		if !ok {
			return true
		}
		if f := ep.CalleeOf(call); f == nil || ep.RecName(f) != "bindDataBasedOnContentType" {
			return true
		}
		for _, l := range as.Lhs {
			if id, ok := l.(*ast.Ident); ok {
				if o := ep.Info.ObjectOf(id); o != nil {
					tainted[o] = true
				}
			}
		}
		return true
	})
	if len(tainted) == 0 {
		r.Unres(rid, "error of the body decoder in BindingMiddleware", ep.GenPos(lit.Pos()), "no variable assigned from bindDataBasedOnContentType")
		return
	}
	parents := parentMap(lit.Body)
	n := 0
	bad := ""
	var bpos token.Pos
	ast.Inspect(lit.Body, func(nd ast.Node) bool {
		kv, ok := nd.(*ast.KeyValueExpr)
		if !ok {
			return true
		}
		if k := types.ExprString(kv.Key); k != "Description" && k != "Message" {
			return true
		}
		// uses of a tainted error inside the value
		ast.Inspect(kv.Value, func(m ast.Node) bool {
			id, ok := m.(*ast.Ident)
			if !ok || !tainted[ep.Info.ObjectOf(id)] {
				return true
			}
			n++
			safe := false
			for p := parents[ast.Node(id)]; p != nil && p != ast.Node(kv); p = parents[p] {
				call, ok := p.(*ast.CallExpr)
				if !ok {
					continue
				}
				cal := ep.CalleeOf(call)
				if cal != nil && cal.Pkg() != nil && cal.Pkg().Path() == "strings" && cal.Name() == "ToValidUTF8" {
					safe = true
				}
				if cal != nil && cal.Pkg() != nil && cal.Pkg().Path() == "fmt" && len(call.Args) > 0 {
					if tv, ok := ep.Info.Types[call.Args[0]]; ok && tv.Value != nil {
						verbs := regexp.MustCompile(`%[-+# 0-9.]*[a-zA-Z]`).FindAllString(tv.Value.ExactString(), -1)
						for i, a := range call.Args[1:] {
							if ast.Unparen(a) == ast.Expr(id) && i < len(verbs) && strings.HasSuffix(verbs[i], "q") {
								safe = true
							}
						}
					}
				}
			}
			if !safe && bad == "" {
				bad = ep.Text(kv.Value)
				bpos = kv.Pos()
			}
			return true
		})
		return true
	})
	pos := ep.GenPos(lit.Pos())
	if bad != "" {
		pos = ep.GenPos(bpos)
	}
	r.CheckD(n > 0 && bad == "", rid, "the body decoder's error text is sanitised before it becomes a violation description", pos,
		"BindingMiddleware builds the description of the body violation as "+bad+": the decoder's error quotes the offending input, so a body that is not valid UTF-8 gives a ValidationError whose marshalling fails (proto3 strings must be valid UTF-8) — the client receives `text/plain` 400 without the violation instead of the documented body", map[string]any{"uses": n})
}

// freshDefaultConfiguration — R10k. Server options (WithErrorHandler, WithMux) are applied to the value that the emitted
// getDefaultConfiguration returns. If that is the address of a package-level variable, one Register…Server call's error hook
// becomes the default of every later registration: their errors surface with another service's status and body.
func freshDefaultConfiguration(c *Ctx, rid string) {
	r := c.R
	ep, err := c.ServerRuntime()
	if err != nil {
		r.Unres(rid, "emitted server runtime", "", err.Error())
		return
	}
	fd := ep.Funcs["getDefaultConfiguration"]
	if fd == nil || fd.Body == nil {
		r.Unres(rid, "getDefaultConfiguration", "", "emitted function not found")
		return
	}
	bad := ""
	var bpos token.Pos
	n := 0
	ast.Inspect(fd.Body, func(nd ast.Node) bool {
		ret, ok := nd.(*ast.ReturnStmt)
		if !ok || len(ret.Results) != 1 {
			return true
		}
		n++
		e := ast.Unparen(ret.Results[0])
		if u, ok := e.(*ast.UnaryExpr); ok && u.Op == token.AND {
			e = ast.Unparen(u.X)
		}
		if id, ok := e.(*ast.Ident); ok {
			if v, ok := ep.Info.ObjectOf(id).(*types.Var); ok && v.Parent() == ep.Pkg.Scope() {
				bad, bpos = ep.Text(ret.Results[0]), ret.Pos()
			}
		}
		return true
	})
	pos := ep.GenPos(fd.Pos())
	if bad != "" {
		pos = ep.GenPos(bpos)
	}
	r.Check(n > 0 && bad == "", rid, "getDefaultConfiguration returns a fresh configuration value", pos,
		"the emitted getDefaultConfiguration returns "+bad+", a package-level variable: the options of one Register…Server call (its error hook, its mux) are written into it and become the defaults of every later registration without options — their error responses carry another registration's status, headers and body")
}
