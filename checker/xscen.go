package main

// xscen.go — cross-generator scenario agreement: for a handful of concrete
// messages (built as values, see cdesc.go) the top-level JSON keys a valid
// instance may carry are computed four ways — from the documented mapping (the
// model), from the OpenAPI generator's evaluated schema, from the TypeScript
// declarations tscommon prints, and from the keys the Go server's emitted
// encoder writes — and must coincide. Everything is interpretation of the
// generators' syntax trees; nothing is executed.

import (
	"fmt"
	"go/types"
	"os"
	"regexp"
	"sort"
	"strings"
)

type xScenario struct {
	Name  string
	Build func() (msg *VStruct, model []string)
	// Unit: suffix of the Go server unit that encodes this feature ("" = protojson only)
	Unit string
}

func oneofConfig(disc string, flatten bool) *VStruct {
	return cstruct("OneofConfig", map[string]Val{"GetDiscriminator()": constStr(disc), "GetFlatten()": VBool{B: flatten}, "Discriminator": constStr(disc), "Flatten": VBool{B: flatten}})
}

func xScenarios() []xScenario {
	tru := VBool{B: true}
	return []xScenario{
		{"plain message (scalar, repeated, map, message fields)", func() (*VStruct, []string) {
			m := cMessage("User", fld("user_id", "string"), fld("age", "int32"), fld("tags", "string").list(), fld("home_addr", "message").msg(cMessage("Addr", fld("street", "string"))))
			return m, []string{"userId", "age", "tags", "homeAddr"}
		}, ""},
		{"flatten with prefix", func() (*VStruct, []string) {
			m := cMessage("User", fld("id", "string"), fld("addr", "message").msg(cMessage("Addr", fld("street", "string"), fld("zip_code", "string"))).ann("IsFlattenField", tru).ann("GetFlattenPrefix", constStr("home_")))
			return m, []string{"id", "home_street", "home_zipCode"}
		}, "_flatten.pb.go"},
		{"flatten without prefix", func() (*VStruct, []string) {
			m := cMessage("User", fld("id", "string"), fld("addr", "message").msg(cMessage("Addr", fld("street", "string"), fld("zip_code", "string"))).ann("IsFlattenField", tru))
			return m, []string{"id", "street", "zipCode"}
		}, "_flatten.pb.go"},
		{"flatten whose child has a field named like the flattened field", func() (*VStruct, []string) {
			m := cMessage("Invoice", fld("id", "string"), fld("amount", "message").msg(cMessage("Money", fld("currency", "string"), fld("amount", "int32"))).ann("IsFlattenField", tru))
			return m, []string{"id", "currency", "amount"}
		}, "_flatten.pb.go"},
		{"nested discriminated oneof", func() (*VStruct, []string) {
			a := fld("text", "message").msg(cMessage("TextContent", fld("body", "string")))
			b := fld("image_ref", "message").msg(cMessage("ImageContent", fld("url", "string")))
			m := cMessage("Event", fld("id", "string"), a, b)
			o := cOneof(m, "content", a, b)
			o.Fields["@GetOneofConfig"] = oneofConfig("kind", false)
			return m, []string{"id", "kind", "text", "imageRef"}
		}, "_oneof_discriminator.pb.go"},
		{"flattened discriminated oneof", func() (*VStruct, []string) {
			a := fld("text", "message").msg(cMessage("TextContent", fld("body", "string")))
			b := fld("image_ref", "message").msg(cMessage("ImageContent", fld("url", "string"), fld("alt_text", "string")))
			m := cMessage("Event", fld("id", "string"), a, b)
			o := cOneof(m, "content", a, b)
			o.Fields["@GetOneofConfig"] = oneofConfig("kind", true)
			return m, []string{"id", "kind", "body", "url", "altText"}
		}, "_oneof_discriminator.pb.go"},
		{"flattened discriminated oneof beside a nested discriminated oneof", func() (*VStruct, []string) {
			a := fld("text", "message").msg(cMessage("TextContent", fld("body", "string")))
			b := fld("image_ref", "message").msg(cMessage("ImageContent", fld("url", "string"), fld("alt_text", "string")))
			u := fld("user", "message").msg(cMessage("UserSource", fld("name", "string")))
			w := fld("bot_agent", "message").msg(cMessage("BotSource", fld("model", "string")))
			m := cMessage("Event", fld("id", "string"), a, b, u, w)
			o := cOneof(m, "content", a, b)
			o.Fields["@GetOneofConfig"] = oneofConfig("kind", true)
			o2 := cOneof(m, "source", u, w)
			o2.Fields["@GetOneofConfig"] = oneofConfig("sourceKind", false)
			return m, []string{"id", "kind", "body", "url", "altText", "sourceKind", "user", "botAgent"}
		}, "_oneof_discriminator.pb.go"},
		{"nested discriminated oneof listed before a flattened one", func() (*VStruct, []string) {
			u := fld("user", "message").msg(cMessage("UserSource", fld("name", "string")))
			w := fld("bot_agent", "message").msg(cMessage("BotSource", fld("model", "string")))
			a := fld("text", "message").msg(cMessage("TextContent", fld("body", "string")))
			b := fld("image_ref", "message").msg(cMessage("ImageContent", fld("url", "string")))
			m := cMessage("Event", u, w, fld("id", "string"), a, b)
			o2 := cOneof(m, "source", u, w)
			o2.Fields["@GetOneofConfig"] = oneofConfig("sourceKind", false)
			o := cOneof(m, "content", a, b)
			o.Fields["@GetOneofConfig"] = oneofConfig("kind", true)
			return m, []string{"id", "kind", "body", "url", "sourceKind", "user", "botAgent"}
		}, "_oneof_discriminator.pb.go"},
		{"flattened discriminated oneof beside a proto3 optional field and an un-annotated oneof", func() (*VStruct, []string) {
			a := fld("text", "message").msg(cMessage("TextContent", fld("body", "string")))
			b := fld("image_ref", "message").msg(cMessage("ImageContent", fld("url", "string")))
			note := fld("note", "string")
			note.Opt = true
			u := fld("user_id", "string")
			d := fld("device_id", "string")
			m := cMessage("Event", fld("id", "string"), a, b, note, u, d)
			o := cOneof(m, "content", a, b)
			o.Fields["@GetOneofConfig"] = oneofConfig("kind", true)
			cOneof(m, "actor", u, d)
			return m, []string{"id", "kind", "body", "url", "note", "userId", "deviceId"}
		}, "_oneof_discriminator.pb.go"},
	}
}

// xHookT: descriptor scenario values + libopenapi identities.
func (c *Ctx) xHookT(fn *types.Func, recv Val, args []Val) (Val, bool) {
	if v, ok := oaHook(fn, recv, args); ok {
		return v, true
	}
	return c.cdescHook(fn, recv, args)
}

// schemaKeys: the top-level property names an instance of the evaluated schema may carry.
func schemaKeys(v Val, components *VStruct, depth int) map[string]bool {
	out := map[string]bool{}
	st, ok := v.(*VStruct)
	if !ok || depth > 4 {
		return out
	}
	if st.Name == "$ref" {
		name := strings.TrimPrefix(valText(st.Fields["ref"]), "#/components/schemas/")
		if components != nil {
			if t, ok := components.Fields[name]; ok {
				return schemaKeys(t, components, depth+1)
			}
		}
		return out
	}
	if pm, ok := st.Fields["Properties"].(*VStruct); ok {
		for k := range pm.Fields {
			out[k] = true
		}
	}
	for _, f := range []string{"AllOf", "OneOf"} {
		if l, ok := st.Fields[f].(VList); ok {
			for _, e := range l.Elems {
				for k := range schemaKeys(e, components, depth+1) {
					out[k] = true
				}
			}
		}
	}
	return out
}

var tsPropRe = regexp.MustCompile(`^\s+([A-Za-z_][\w]*)\??: `)
var tsBranchKeyRe = regexp.MustCompile(`[{;]\s*([A-Za-z_][\w]*)\??: `)

// tsKeys: the top-level property names of the TypeScript declaration of msgName in the printed text.
func tsKeys(lines []string, msgName string) map[string]bool {
	ifaces := map[string]map[string]bool{}
	unions := map[string]map[string]bool{}
	alias := map[string][]string{}
	cur := ""
	curUnion := ""
	for _, l := range lines {
		switch {
		case strings.HasPrefix(l, "export interface "):
			cur = strings.TrimSuffix(strings.TrimPrefix(l, "export interface "), " {")
			ifaces[cur] = map[string]bool{}
			curUnion = ""
		case l == "}":
			cur = ""
		case strings.HasPrefix(l, "export type ") && strings.HasSuffix(l, " ="):
			curUnion = strings.TrimSuffix(strings.TrimPrefix(l, "export type "), " =")
			unions[curUnion] = map[string]bool{}
		case strings.HasPrefix(l, "export type ") && strings.Contains(l, " = "):
			parts := strings.SplitN(strings.TrimSuffix(strings.TrimPrefix(l, "export type "), ";"), " = ", 2)
			alias[parts[0]] = strings.Split(parts[1], " & ")
			curUnion = ""
		case cur != "":
			if m := tsPropRe.FindStringSubmatch(l); m != nil {
				ifaces[cur][m[1]] = true
			}
		case curUnion != "" && strings.HasPrefix(strings.TrimSpace(l), "|"):
			for _, m := range tsBranchKeyRe.FindAllStringSubmatch(l, -1) {
				unions[curUnion][m[1]] = true
			}
		}
	}
	out := map[string]bool{}
	var collect func(n string, d int)
	collect = func(n string, d int) {
		if d > 3 {
			return
		}
		for k := range ifaces[n] {
			out[k] = true
		}
		for k := range unions[n] {
			out[k] = true
		}
		for _, p := range alias[n] {
			collect(strings.TrimSpace(p), d+1)
		}
	}
	collect(msgName, 0)
	return out
}

func setDiff(a, b map[string]bool) (onlyA, onlyB []string) {
	for k := range a {
		if !b[k] {
			onlyA = append(onlyA, k)
		}
	}
	for k := range b {
		if !a[k] {
			onlyB = append(onlyB, k)
		}
	}
	sort.Strings(onlyA)
	sort.Strings(onlyB)
	return
}

func toSet(xs []string) map[string]bool {
	m := map[string]bool{}
	for _, x := range xs {
		m[x] = true
	}
	return m
}

// crossScenarioKeys runs the comparison; which = "openapi" | "ts" | "go" selects the
// side reported under the given rule (C06 reports openapi and go, C07 reports ts).
func crossScenarioKeys(c *Ctx, rule, which string) {
	r := c.R
	c.W.Concrete, c.W.ExternStructs = true, true
	defer func() { c.W.Concrete, c.W.ExternStructs = false, false }()
	for _, sc := range xScenarios() {
		msg, model := sc.Build()
		want := toSet(model)
		name := valText(msg.Fields["Desc"].(*VStruct).Fields["Name()"])
		switch which {
		case "openapi":
			fn := c.P.Func(pkgOpenAPI, "Generator.buildObjectSchema")
			if fn == nil {
				r.Unres(rule, sc.Name, "", "buildObjectSchema not found")
				continue
			}
			comps := &VStruct{Name: "omap", Fields: map[string]Val{}}
			g := cstruct("Generator", map[string]Val{"schemas": comps})
			run := c.W.NewRun(map[string]int{}, false)
			run.InlineAll, run.FollowSlices = true, true
			run.CallHook = c.xHookT
			run.StartArgs(fn, map[string]Val{"g": g, "message": msg})
			pos := c.P.Pos(c.P.Decls[fn].Pos())
			if len(run.Used) > 0 {
				r.Undec(rule, "OpenAPI: "+sc.Name, pos, fmt.Sprintf("evaluation of buildObjectSchema on the scenario left decisions open: %v", usedKeys(run)))
				continue
			}
			got := schemaKeys(run.Result, comps, 0)
			miss, extra := setDiff(want, got)
			r.Check(len(miss) == 0 && len(extra) == 0, rule, "OpenAPI properties of: "+sc.Name, pos,
				fmt.Sprintf("%s %s: the wire carries the keys %v; the component schema describes %v (not described: %v; described but never sent: %v)", name, sc.Name, model, sortedKeys(got), miss, extra))
		case "go":
			if sc.Unit == "" {
				continue
			}
			ri := c.Root(pkgHTTP, sc.Unit)
			if ri == nil {
				r.Unres(rule, sc.Name, "", "unit root not found")
				continue
			}
			file := cstruct("File", map[string]Val{"Messages": VList{Key: "m", Elems: []Val{msg}}, "Services": VList{Key: "s", Elems: []Val{}}, "Enums": VList{Key: "e", Elems: []Val{}},
				"GoPackageName": constStr("pkg"), "GeneratedFilenamePrefix": constStr("x"), "GoImportPath": constStr("x/pkg"), "Desc": cstruct("FileDesc", map[string]Val{"Path()": constStr("x.proto")})})
			run := c.W.NewRun(map[string]int{}, false)
			run.InlineAll, run.FollowSlices = true, true
			run.CallHook = c.xHookT
			run.StartArgs(ri.Fn, map[string]Val{"file": file})
			pos := c.P.Pos(c.P.Decls[ri.Fn].Pos())
			if len(run.Used) > 0 || run.Aborted != "" || len(run.Units) == 0 {
				r.Undec(rule, "Go encoder: "+sc.Name, pos, fmt.Sprintf("reconstruction of *%s on the scenario message: open decisions %v, aborted %q, units %d", sc.Unit, usedKeys(run), run.Aborted, len(run.Units)))
				continue
			}
			got, notes := goEncoderKeys(msg, run.Units[0])
			miss, extra := setDiff(want, got)
			r.CheckD(len(miss) == 0 && len(extra) == 0, rule, "Go encoder keys of: "+sc.Name, pos,
				fmt.Sprintf("%s %s: the documented mapping (and the OpenAPI schema and the decoder) use the keys %v; the emitted MarshalJSON writes %v (%s) (documented but not written: %v; written but not documented: %v)", name, sc.Name, model, sortedKeys(got), strings.Join(notes, "; "), miss, extra), map[string]any{"notes": notes})
		case "ts":
			fn := c.P.Func("internal/tscommon", "GenerateInterface")
			if fn == nil {
				r.Unres(rule, sc.Name, "", "GenerateInterface not found")
				continue
			}
			run := c.W.NewRun(map[string]int{}, false)
			run.InlineAll, run.FollowSlices, run.AmbientPrinter = true, true, true
			run.CallHook = c.xHookT
			run.StartArgs(fn, map[string]Val{"msg": msg})
			pos := c.P.Pos(c.P.Decls[fn].Pos())
			if len(run.Used) > 0 {
				r.Undec(rule, "TypeScript: "+sc.Name, pos, fmt.Sprintf("evaluation of GenerateInterface on the scenario left decisions open: %v", usedKeys(run)))
				continue
			}
			var lines []string
			for _, u := range run.Units {
				for _, l := range u.Lines {
					lines = append(lines, lineText(l.Segs))
				}
			}
			if os.Getenv("VERIF_DEBUG_X") != "" {
				fmt.Println("TS LINES for", sc.Name)
				for _, l := range lines {
					fmt.Println("   |" + l)
				}
			}
			got := tsKeys(lines, name)
			miss, extra := setDiff(want, got)
			r.Check(len(miss) == 0 && len(extra) == 0, rule, "TypeScript properties of: "+sc.Name, pos,
				fmt.Sprintf("%s %s: the wire carries the keys %v; the TypeScript declaration has the top-level properties %v (on the wire but not declared: %v; declared but never sent: %v)", name, sc.Name, model, sortedKeys(got), miss, extra))
		}
	}
}

func usedKeys(run *Run) []string {
	var out []string
	for _, u := range run.Used {
		out = append(out, u.Key)
	}
	return out
}

var (
	reDelete  = regexp.MustCompile(`delete\(raw, "([^"]+)"\)`)
	reAssign  = regexp.MustCompile(`raw\["([^"]+)"\](?:, _)? =`)
	reChildM  = regexp.MustCompile(`(?:^|[^o])json\.Marshal\(x\.(\w+)\)`)
	reChildG  = regexp.MustCompile(`:= x\.Get(\w+)\(\)`)
	reChildP  = regexp.MustCompile(`protojson\.Marshal\(x\.(\w+)\)`)
	reAliasX  = regexp.MustCompile(`\b(\w+) := x\.(\w+)(?:;| |$)`)
	reChildMA = regexp.MustCompile(`(?:^|[^o])json\.Marshal\((\w+)\)`)
	reChildPA = regexp.MustCompile(`protojson\.Marshal\((\w+)\)`)
	reDynamic = regexp.MustCompile(`raw\[(?:"([^"]*)" \+ )?(\w+)\] = \w+`)
)

// goEncoderKeys: the top-level keys the emitted MarshalJSON of the scenario message can write:
// protojson's keys (the fields' JSON names), minus deleted keys, plus assigned constant keys, plus —
// for keys copied from encoding/json of a child struct — prefix + the child's Go struct tag names
// (protoc-gen-go tags fields `json:"<proto name>,omitempty"`).
func goEncoderKeys(msg *VStruct, u *Unit) (map[string]bool, []string) {
	keys := map[string]bool{}
	byGo := map[string]*VStruct{}
	for _, f := range msg.Fields["Fields"].(VList).Elems {
		fs := f.(*VStruct)
		keys[valText(fs.Fields["Desc"].(*VStruct).Fields["JSONName()"])] = true
		byGo[valText(fs.Fields["GoName"])] = fs
	}
	var notes []string
	in := false
	aliasOf := map[string]string{}
	child := ""
	viaStd := false // the child's bytes come from encoding/json (struct tags) rather than protojson / its own codec
	for _, l := range u.Lines {
		t := lineText(l.Segs)
		if strings.HasPrefix(t, "func (x ") {
			in = strings.Contains(t, "MarshalJSON()")
			continue
		}
		if !in {
			continue
		}
		// a local bound to a field of the receiver stands for that field (`if child := x.F; child != nil {`)
		if m := reAliasX.FindStringSubmatch(t); m != nil {
			aliasOf[m[1]] = m[2]
		}
		if m := reChildM.FindStringSubmatch(t); m != nil {
			child, viaStd = m[1], true
		}
		if m := reChildP.FindStringSubmatch(t); m != nil {
			child, viaStd = m[1], false
		}
		if m := reChildMA.FindStringSubmatch(t); m != nil && aliasOf[m[1]] != "" {
			child, viaStd = aliasOf[m[1]], true
		}
		if m := reChildPA.FindStringSubmatch(t); m != nil && aliasOf[m[1]] != "" {
			child, viaStd = aliasOf[m[1]], false
		}
		if m := reChildG.FindStringSubmatch(t); m != nil {
			child, viaStd = m[1], false
		}
		if strings.Contains(t, "json.Marshal(inner)") && !strings.Contains(t, "protojson.Marshal(inner)") {
			viaStd = true
		}
		if m := reDelete.FindStringSubmatch(t); m != nil {
			delete(keys, m[1])
		}
		if m := reAssign.FindStringSubmatch(t); m != nil {
			keys[m[1]] = true
			continue
		}
		if m := reDynamic.FindStringSubmatch(t); m != nil {
			cf := byGo[child]
			if cf == nil {
				notes = append(notes, "dynamic keys from an unidentified child")
				continue
			}
			if cm, ok := cf.Fields["Message"].(*VStruct); ok {
				acc := "JSONName()"
				if viaStd {
					acc = "Name()"
				}
				for _, g := range cm.Fields["Fields"].(VList).Elems {
					pn := valText(g.(*VStruct).Fields["Desc"].(*VStruct).Fields[acc])
					keys[m[1]+pn] = true
				}
				if viaStd {
					notes = append(notes, "keys of "+child+" come from encoding/json of the child struct, i.e. its proto field names")
				} else {
					notes = append(notes, "keys of "+child+" come from protojson (or the child's own codec)")
				}
			}
		}
	}
	return keys, notes
}

// emptyBehaviorPairing: for messages whose empty_behavior fields carry different
// settings, every key for which the emitted MarshalJSON writes the literal null
// must be mapped back by an emitted UnmarshalJSON of the same message (protojson
// rejects or mis-reads null for a message field otherwise). Decided on concrete
// descriptor scenarios in both Go plugins; nothing is executed.
func emptyBehaviorPairing(c *Ctx, rid string) {
	r := c.R
	c.W.Concrete, c.W.ExternStructs = true, true
	defer func() { c.W.Concrete, c.W.ExternStructs = false, false }()
	beh := map[string]Val{
		"PRESERVE": VInt{N: 1, Label: "EmptyBehavior_EMPTY_BEHAVIOR_PRESERVE"},
		"NULL":     VInt{N: 2, Label: "EmptyBehavior_EMPTY_BEHAVIOR_NULL"},
		"OMIT":     VInt{N: 3, Label: "EmptyBehavior_EMPTY_BEHAVIOR_OMIT"},
	}
	scen := [][]string{{"NULL"}, {"NULL", "PRESERVE"}, {"PRESERVE", "NULL"}, {"NULL", "OMIT"}, {"OMIT", "NULL", "OMIT"}, {"NULL", "NULL"}, {"OMIT"}}
	reNullW := regexp.MustCompile(`raw\["([^"]+)"\] = \[\]byte\("null"\)`)
	reNullR := regexp.MustCompile(`raw\["([^"]+)"\]; ok && string\(\w+\) == "null"`)
	for _, pkg := range []string{pkgHTTP, pkgClient} {
		ri := c.Root(pkg, "_empty_behavior.pb.go")
		if ri == nil {
			r.Unres(rid, pkgShort(pkg)+" *_empty_behavior.pb.go", "", "unit root not found")
			continue
		}
		pos := c.P.Pos(c.P.Decls[ri.Fn].Pos())
		for _, sc := range scen {
			var fs []*cField
			for i, b := range sc {
				fs = append(fs, fld(fmt.Sprintf("part_%c", 'a'+i), "message").msg(cMessage("Part", fld("v", "string"))).ann("GetEmptyBehavior", beh[b]))
			}
			msg := cMessage("Holder", fs...)
			file := cstruct("File", map[string]Val{"Messages": VList{Key: "m", Elems: []Val{msg}}, "Services": VList{Key: "s", Elems: []Val{}}, "Enums": VList{Key: "e", Elems: []Val{}},
				"GoPackageName": constStr("pkg"), "GeneratedFilenamePrefix": constStr("x"), "GoImportPath": constStr("x/pkg"), "Desc": cstruct("FileDesc", map[string]Val{"Path()": constStr("x.proto")})})
			run := c.W.NewRun(map[string]int{}, false)
			run.InlineAll, run.FollowSlices = true, true
			run.CallHook = c.xHookT
			run.StartArgs(ri.Fn, map[string]Val{"file": file})
			name := fmt.Sprintf("%s: empty_behavior fields %v", pkgShort(pkg), sc)
			if len(run.Used) > 0 || run.Aborted != "" || len(run.Units) == 0 {
				r.Undec(rid, name, pos, fmt.Sprintf("reconstruction of *_empty_behavior.pb.go on the scenario message: open decisions %v, aborted %q, units %d", usedKeys(run), run.Aborted, len(run.Units)))
				continue
			}
			written, read := map[string]bool{}, map[string]bool{}
			dir := ""
			for _, l := range run.Units[0].Lines {
				t := lineText(l.Segs)
				if strings.HasPrefix(t, "func (x ") {
					dir = ""
					if strings.Contains(t, "MarshalJSON()") {
						dir = "enc"
					} else if strings.Contains(t, "UnmarshalJSON(") {
						dir = "dec"
					}
				}
				if m := reNullW.FindStringSubmatch(t); m != nil && dir == "enc" {
					written[m[1]] = true
				}
				if m := reNullR.FindStringSubmatch(t); m != nil && dir == "dec" {
					read[m[1]] = true
				}
			}
			wantNull := map[string]bool{}
			for i, b := range sc {
				if b == "NULL" {
					wantNull[fmt.Sprintf("part%c", 'A'+i)] = true
				}
			}
			missW, extraW := setDiff(wantNull, written)
			missR, _ := setDiff(written, read)
			r.Check(len(missW) == 0 && len(extraW) == 0 && len(missR) == 0, rid, name, pos,
				fmt.Sprintf("message with empty_behavior fields %v: MarshalJSON writes null for %v (declared NULL: %v); UnmarshalJSON maps null back for %v — not decoded: %v. The peer's own encoder output is then rejected or mis-read by the decoder of the same message", sc, sortedKeys(written), sortedKeys(wantNull), sortedKeys(read), missR))
		}
	}
}
